//! fcgi-verif: runtime-monitoring harness for TheJokr/fastcgi-server (properties C01..C20).
//!
//! usage: fcgi-verif <ID> [--tier quick|thorough] [--seed N] [--scale full|san|miri]
//!                   [--threads N] [--evidence PATH] [--out DIR] [--replay WORKLOAD:INDEX] [--verbose]
//!
//! Exit codes: 0 = ran to completion (violations are reported as RAWVIOLATION lines which the
//! ./check orchestrator classifies against known_findings.json), 2 = inconclusive, 3 = usage.

#![allow(dead_code, clippy::too_many_lines, clippy::type_complexity)]

mod ev;
mod gen;
mod json;
mod rng;
mod spec;
mod syncdrive;
mod threads;
mod wire;

mod c01;
mod c02;
mod c03;
mod c04;
mod c05;
mod c06;
mod c07;
mod c08;
mod c09;
mod c10;
mod c11;
mod c12;
mod c13;
mod c14;
mod conn;
mod exec;
mod handler;
mod tracesub;
mod transport;
mod c15;
mod c16;
mod c17;
mod c18;
mod c19;
mod c20;

use std::path::PathBuf;

use ev::{Ctx, Scale, Tier};

fn main() {
    let args: Vec<String> = std::env::args().skip(1).collect();
    if args.is_empty() {
        eprintln!("usage: fcgi-verif <ID> [--tier quick|thorough] [--seed N] ...");
        std::process::exit(3);
    }
    let prop = args[0].clone();
    let mut tier = Tier::Quick;
    let mut seed: u64 = 1;
    let mut scale = Scale::Full;
    let mut threads = std::thread::available_parallelism().map_or(4, usize::from);
    let mut evidence: Option<PathBuf> = None;
    let mut out = PathBuf::from("out");
    let mut replay = None;
    let mut verbose = false;
    let mut trace = true;
    let mut i = 1;
    while i < args.len() {
        let a = args[i].as_str();
        let mut val = || {
            i += 1;
            args.get(i).cloned().unwrap_or_else(|| {
                eprintln!("missing value for {a}");
                std::process::exit(3)
            })
        };
        match a {
            "--tier" => {
                tier = match val().as_str() {
                    "thorough" => Tier::Thorough,
                    _ => Tier::Quick,
                }
            }
            "--seed" => seed = val().parse().unwrap_or(1),
            "--scale" => {
                scale = match val().as_str() {
                    "san" => Scale::San,
                    "miri" => Scale::Miri,
                    _ => Scale::Full,
                }
            }
            "--threads" => threads = val().parse().unwrap_or(1),
            "--evidence" => evidence = Some(PathBuf::from(val())),
            "--out" => out = PathBuf::from(val()),
            "--replay" => {
                let v = val();
                let (w, idx) = v.rsplit_once(':').unwrap_or((&v, "0"));
                replay = Some((w.to_string(), idx.parse().unwrap_or(0)));
            }
            "--verbose" => verbose = true,
            "--no-trace" => trace = false,
            _ => {
                eprintln!("unknown argument {a}");
                std::process::exit(3);
            }
        }
        i += 1;
    }
    if scale == Scale::Miri {
        threads = 1;
    }
    if replay.is_some() {
        verbose = true;
        threads = 1;
    }
    if trace {
        // evaluate the crate's log statements on every workload (see tracesub.rs)
        tracesub::install();
    }
    ev::install_panic_hook(verbose);
    if scale != Scale::Miri {
        ev::start_hang_watchdog(Box::leak(prop.clone().into_boxed_str()), seed, out.clone(), 20);
    }

    let id: &'static str = Box::leak(prop.clone().into_boxed_str());
    let ctx = Ctx::new(id, seed, tier, scale, threads, out, replay, verbose);
    let code = match prop.as_str() {
        "C01" => c01::run(&ctx, evidence.as_ref()),
        "C02" => c02::run(&ctx, evidence.as_ref()),
        "C03" => c03::run(&ctx, evidence.as_ref()),
        "C04" => c04::run_all(&ctx, evidence.as_ref()),
        "C05" => c05::run(&ctx, evidence.as_ref()),
        "C06" => c06::run(&ctx, evidence.as_ref()),
        "C07" => c07::run(&ctx, evidence.as_ref()),
        "C08" => c08::run(&ctx, evidence.as_ref()),
        "C09" => c09::run(&ctx, evidence.as_ref()),
        "C10" => c10::run(&ctx, evidence.as_ref()),
        "C11" => c11::run(&ctx, evidence.as_ref()),
        "C12" => c12::run(&ctx, evidence.as_ref()),
        "C13" => c13::run(&ctx, evidence.as_ref()),
        "C14" => c14::run(&ctx, evidence.as_ref()),
        "C15" => c15::run(&ctx, evidence.as_ref()),
        "C16" => c16::run(&ctx, evidence.as_ref()),
        "C17" => c17::run(&ctx, evidence.as_ref()),
        "C18" => c18::run(&ctx, evidence.as_ref()),
        "C19" => c19::run(&ctx, evidence.as_ref()),
        "C20" => c20::run(&ctx, evidence.as_ref()),
        _ => {
            eprintln!("unknown property {prop}");
            3
        }
    };
    std::process::exit(code);
}
