//! C18 — input stream sequencing follows the role's order exactly.

use std::path::PathBuf;

use fastcgi_server::parser::{request, stream};
use fastcgi_server::protocol::{RecordType, Role};
use fastcgi_server::Config;

use crate::c02::config;
use crate::ev::{guarded, panic_signature, Case, Ctx};
use crate::gen;
use crate::json::{hex_cap, Json};
use crate::rng::{mix, Rng};
use crate::spec::{self, PreOutcome};
use crate::syncdrive::{self as sd, Chunking, PStatus, SDriver};
use crate::wire;

pub fn make_stream_parser<'c>(cfg: &'c Config, bytes: &[u8], rng: &mut Rng) -> Option<(stream::Parser<'c>, usize)> {
    let mut ch = Chunking::Fill;
    let run = sd::drive_request(request::Parser::new(cfg), bytes, 0, bytes.len(), &mut ch, rng, false);
    if !run.done {
        return None;
    }
    let fed = run.fed;
    run.parser?.into_stream_parser().ok().map(|p| (p, fed))
}

/// The specification's selection rule.
fn model_accepts(role: u16, current: Option<u8>, requested: Option<u8>) -> bool {
    let order = wire::role_input_streams(role);
    match requested {
        None => true,
        Some(t) => {
            let Some(pt) = order.iter().position(|&x| x == t) else { return false };
            match current {
                None => false, // 'none' is permanent
                Some(c) => order.iter().position(|&x| x == c).map_or(false, |pc| pt >= pc),
            }
        }
    }
}

/// Exhaustive table: role x reachable current selection x all 12 requested values.
fn table(c: &mut Case) {
    let roles = [wire::RESPONDER, wire::AUTHORIZER, wire::FILTER];
    let role = roles[(c.index % 3) as usize];
    let order = wire::role_input_streams(role);
    let mut currents: Vec<Option<u8>> = order.iter().map(|&t| Some(t)).collect();
    currents.push(None);
    let cur = currents[(c.index / 3) as usize % currents.len()];
    if (c.index / 3) as usize >= currents.len() {
        return;
    }
    let cfg = config(256, 1);
    // preamble + some stream data so that buffers are non-empty
    let mut bytes = Vec::new();
    wire::begin_request(&mut bytes, 9, role, 1, 0);
    wire::record(&mut bytes, wire::PARAMS, 9, &[], 0);
    wire::record(&mut bytes, wire::GETVALUES, 0, b"\x0e\x00FCGI_MAX_CONNS", 2); // leaves bytes in the output buffer
    for &t in order {
        wire::record(&mut bytes, t, 9, &gen::tagged(if t == wire::STDIN { 1 } else { 2 }, 0, 24), 0);
    }
    let pre_len = bytes.len();
    // a tail that continues every stream and then terminates them
    let mut tail = Vec::new();
    for &t in order {
        wire::record(&mut tail, t, 9, &gen::tagged(if t == wire::STDIN { 1 } else { 2 }, 24, 10), 3);
        wire::record(&mut tail, t, 9, &[], 0);
    }
    bytes.extend_from_slice(&tail);

    for req_v in 0..12u8 {
        let requested: Option<u8> = if req_v == 0 { None } else { Some(req_v) };
        let Some((sp, fed0)) = make_stream_parser(&cfg, &bytes[..pre_len], &mut c.rng) else {
            c.violation("harness-table-setup", Json::obj().with("role", role));
            return;
        };
        let mut d = SDriver::new(sp, &bytes, fed0, bytes.len());
        // reach the current selection, then buffer some of its data (dest = None)
        let mut ok = true;
        match cur {
            None => ok &= d.set_stream(None).is_ok(),
            Some(t) => {
                if d.active() != Some(t) {
                    ok &= d.set_stream(Some(t)).is_ok();
                }
            }
        }
        let _ = d.feed_parse(0, None);
        if !ok || d.active() != cur || !d.ok() {
            let p = d.problems.first().cloned();
            c.violation("table-setup-failed", Json::obj().with("role", role).with("current", format!("{cur:?}")).with("problem", format!("{p:?}")));
            return;
        }
        let before = (d.active(), d.shadow_stream.clone(), d.shadow_out.clone());
        let reference = d.parser().clone();
        let want = model_accepts(role, cur, requested);
        let p = d.p.as_mut().expect("parser");
        let r = guarded(|| p.set_stream(requested.map(sd::rt)));
        c.l.evaluations += 1;
        c.l.count("table_cells");
        let cell = || Json::obj().with("role", role).with("current", format!("{cur:?}")).with("requested", format!("{requested:?}")).with("model_accepts", want);
        // a requested type that is not an input stream at all may trip the documented debug assertion
        let is_stream_type = matches!(requested, None | Some(5 | 8));
        let accepted = match &r {
            Ok(Ok(())) => true,
            Ok(Err(_)) => false,
            Err(pm) => {
                if is_stream_type || want {
                    c.violation(panic_signature(pm), cell().with("panic", pm.clone()));
                    return;
                }
                c.l.count("rejections_by_debug_assertion");
                false
            }
        };
        if accepted != want {
            c.violation(if accepted { "invalid-selection-accepted" } else { "valid-selection-rejected" }, cell());
            return;
        }
        if !accepted {
            // nothing may have changed
            d.verify("rejected set_stream");
            if d.active() != before.0 || !d.ok() {
                let p = d.problems.first().cloned();
                c.violation("rejected-selection-changed-state", cell().with("active_after", format!("{:?}", d.active())).with("problem", format!("{p:?}")));
                return;
            }
            // ... and subsequent parsing is unchanged: compare with the untouched clone
            let mut a = d.p.take().expect("parser");
            let mut b = reference;
            let n = tail.len().min(a.input_buffer().len());
            a.input_buffer()[..n].copy_from_slice(&tail[..n]);
            b.input_buffer()[..n].copy_from_slice(&tail[..n]);
            let ra = guarded(|| a.parse(n, None).map(|s| (s.stream, s.stream_end, s.output)).map_err(|e| sd::err_kind(&e)));
            let rb = guarded(|| b.parse(n, None).map(|s| (s.stream, s.stream_end, s.output)).map_err(|e| sd::err_kind(&e)));
            if ra != rb || a.stream_buffer() != b.stream_buffer() || a.output_buffer() != b.output_buffer() {
                c.violation("rejected-selection-changed-parsing", cell().with("with_rejected_call", format!("{ra:?}")).with("without", format!("{rb:?}")));
                return;
            }
            c.l.count("rejections_verified_unchanged");
        } else if requested == cur {
            // re-selecting the current stream keeps buffered data
            d.verify("re-select current");
            if !d.ok() || d.shadow_stream != before.1 {
                c.violation("reselect-lost-buffered-data", cell().with("buffered_before", before.1.len()).with("buffered_after", d.parser().stream_buffer().len()));
                return;
            }
            if cur.is_some() && before.1.is_empty() {
                c.violation("harness-table-no-buffered-data", cell());
                return;
            }
            c.l.count("reselect_keeps_data");
        } else {
            if d.active() != requested {
                c.violation("selection-not-applied", cell().with("active_after", format!("{:?}", d.active())));
                return;
            }
            if !d.parser().stream_buffer().is_empty() {
                c.violation("selection-keeps-old-data", cell().with("buffered_after", d.parser().stream_buffer().len()));
                return;
            }
            if d.parser().output_buffer() != &before.2[..] {
                c.violation("selection-touched-output", cell());
                return;
            }
            c.l.count("forward_selections");
        }
        c.l.sig(mix(u64::from(role) << 16 | u64::from(req_v), cur.map_or(0, u64::from)));
    }
}

/// Role::input_streams / next_input_stream against the specification table.
fn role_tables(c: &mut Case) {
    for (r, ins) in [(1u16, vec![5u8]), (2, vec![]), (3, vec![5, 8])] {
        let role = Role::try_from(r).expect("role");
        let got: Vec<u8> = role.input_streams().iter().map(|&t| u8::from(t)).collect();
        c.l.evaluations += 1;
        if got != ins {
            c.violation("role-input-streams", Json::obj().with("role", r).with("got", format!("{got:?}")));
        }
        let mut cur: Option<RecordType> = None;
        let mut walked = Vec::new();
        for _ in 0..4 {
            match guarded(|| role.next_input_stream(cur)) {
                Ok(Some(n)) => {
                    walked.push(u8::from(n));
                    cur = Some(n);
                }
                Ok(None) => break,
                Err(p) => {
                    c.violation(panic_signature(&p), Json::obj().with("role", r));
                    break;
                }
            }
        }
        if walked != ins {
            c.violation("role-next-input-stream", Json::obj().with("role", r).with("walked", format!("{walked:?}")));
        }
    }
    c.l.count("role_tables_checked");
}

/// Arbitrary record orders + arbitrary set_stream attempts at arbitrary points.
fn history(c: &mut Case) {
    let role = *c.rng.pick(&[wire::RESPONDER, wire::FILTER, wire::FILTER, wire::AUTHORIZER]);
    let id = gen::gen_request_id(&mut c.rng);
    let buffer = *c.rng.pick(&[24usize, 64, 256, 8192]);
    let cfg = config(buffer, 2);
    let mut bytes = Vec::new();
    wire::begin_request(&mut bytes, id, role, c.rng.u8(), gen::gen_padding(&mut c.rng));
    wire::record(&mut bytes, wire::PARAMS, id, &[], gen::gen_padding(&mut c.rng));
    // every stream type in any order, own and foreign ids, empty records anywhere
    let n = 2 + c.rng.below(14);
    let mut offs = [0usize; 2];
    for _ in 0..n {
        let kind = c.rng.below(10);
        match kind {
            0..=5 => {
                let t = *c.rng.pick(&[wire::STDIN, wire::STDIN, wire::DATA]);
                let own = c.rng.chance(4, 5);
                let len = if c.rng.chance(1, 5) { 0 } else { *c.rng.pick(&[1usize, 2, 7, 8, 9, 30, 200]) };
                let k = usize::from(t == wire::DATA);
                let body = if own { gen::tagged(1 + k as u8, offs[k], len) } else { c.rng.bytes(len) };
                if own {
                    offs[k] += len;
                }
                let rid = if own { id } else { gen::foreign_id(&mut c.rng, id) };
                wire::record(&mut bytes, t, rid, &body, gen::gen_padding(&mut c.rng));
            }
            6 => gen::push_extra(&mut c.rng, &mut bytes, gen::Extra::GetValues, id, role, 11),
            7 => gen::push_extra(&mut c.rng, &mut bytes, gen::Extra::UnknownType, id, role, 11),
            8 => gen::push_extra(&mut c.rng, &mut bytes, gen::Extra::StaleParams, id, role, 11),
            _ => gen::push_extra(&mut c.rng, &mut bytes, gen::Extra::ForeignBegin, id, role, 11),
        }
    }
    let pre = spec::model_preamble(&bytes, 0);
    let PreOutcome::Done(info) = &pre.outcome else { return };
    let model = spec::model_streams(&bytes, info.end_off, id, role);
    let order = wire::role_input_streams(role);
    let Some((sp, fed0)) = make_stream_parser(&cfg, &bytes[..info.end_off], &mut c.rng) else {
        c.violation("harness-history-setup", Json::obj().with("role", role));
        return;
    };
    let mut d = SDriver::new(sp, &bytes, fed0, bytes.len());
    let mut chunk = sd::pick_chunking(&mut c.rng, &sd::structural_offsets(&bytes));
    let report = |c: &mut Case, d: &SDriver, sig: &str, msg: String| {
        c.violation(
            sig,
            Json::obj()
                .with("role", role)
                .with("buffer_size", buffer)
                .with("problem", msg)
                .with("input_hex", hex_cap(&bytes, 8000))
                .with("actions", d.trace.iter().rev().take(50).rev().cloned().collect::<Vec<_>>()),
        );
    };
    let mut steps = 0;
    let mut idle = 0;
    loop {
        steps += 1;
        if steps > 20_000 || !d.ok() || d.err.is_some() {
            break;
        }
        // --- maybe an arbitrary selection attempt
        if c.rng.chance(1, 6) {
            let cur = d.active();
            let requested: Option<u8> = match c.rng.below(6) {
                0 => None,
                1 | 2 => Some(wire::STDIN),
                3 | 4 => Some(wire::DATA),
                _ => cur,
            };
            let want = model_accepts(role, cur, requested);
            // going to None early is legal but ends the interesting part: do it rarely
            if requested.is_none() && cur.is_some() && !c.rng.chance(1, 8) {
                continue;
            }
            // a third of the selections come after the usual read-loop tidy-up (everything consumed,
            // buffer compacted): set_stream then finds a fully compacted, empty buffer
            if c.rng.chance(1, 3) {
                let len = d.shadow_stream.len();
                if len > 0 {
                    d.consume_stream(len);
                }
                d.compress();
                c.l.count("selections_after_consume_all_and_compress");
            }
            let mid_record = !d.parser().is_record_boundary();
            let buffered = d.shadow_stream.clone();
            let r = d.set_stream(requested);
            c.l.count("selection_attempts");
            match r {
                Ok(changed) => {
                    if !want {
                        report(c, &d, "invalid-selection-accepted", format!("set_stream({requested:?}) accepted with active stream {cur:?} (role {role})"));
                        return;
                    }
                    if !changed && d.shadow_stream != buffered {
                        report(c, &d, "reselect-lost-buffered-data", "re-selecting the current stream changed the buffered data".into());
                        return;
                    }
                    if changed && mid_record {
                        c.l.count("forward_selections_mid_record");
                    }
                }
                Err(()) => {
                    if want && d.ok() {
                        report(c, &d, "valid-selection-rejected", format!("set_stream({requested:?}) rejected with active stream {cur:?} (role {role})"));
                        return;
                    }
                    c.l.count("backward_or_foreign_selections_rejected");
                }
            }
            continue;
        }
        if !d.shadow_stream.is_empty() && c.rng.chance(1, 2) {
            let len = d.shadow_stream.len();
            let k = c.rng.range(1, len);
            d.consume_stream(k);
        }
        if c.rng.chance(1, 4) {
            d.compress();
        }
        if !d.shadow_out.is_empty() && c.rng.chance(1, 3) {
            let len = d.shadow_out.len();
            d.consume_output(len);
        }
        let mut space = d.space();
        if space == 0 && d.remaining() > 0 {
            let len = d.shadow_stream.len();
            d.consume_stream(len);
            d.compress();
            space = d.space();
        }
        let n = chunk.next(&mut c.rng, d.fed, space, d.remaining());
        let dest = if d.shadow_stream.is_empty() && c.rng.chance(1, 2) { Some(c.rng.range(1, 40)) } else { None };
        let fed_before = d.fed;
        let Some(st) = d.feed_parse(n, dest) else { break };
        if !sd::model_check(&mut d, &model, st, dest, fed_before) {
            break;
        }
        // --- held-back semantics: linger on a reported stream end
        if st.stream_end && d.active().is_some() && c.rng.chance(1, 2) {
            let s = d.active();
            let si = model.streams.iter().find(|x| Some(x.rtype) == s);
            let Some(term) = si.and_then(|x| x.term_off) else { break };
            for _ in 0..3 {
                let len = d.shadow_stream.len();
                d.consume_stream(len);
                let r: Option<PStatus> = d.feed_parse(0, if c.rng.chance(1, 2) { Some(16) } else { None });
                match r {
                    Some(st2) if st2.stream_end && st2.stream == 0 => {}
                    Some(st2) => {
                        report(c, &d, "held-record-not-held", format!("after stream_end a further parse reported stream={} stream_end={}", st2.stream, st2.stream_end));
                        return;
                    }
                    None => break,
                }
            }
            if let Some(off) = d.probe_leftover() {
                if off != term {
                    report(c, &d, "held-record-skipped", format!("while stream_end is pending the unread remainder starts at {off}, the terminating record is at {term}"));
                    return;
                }
                c.l.count("held_records_verified_in_place");
            }
        }
        // --- advance (sometimes) when the stream ended
        if st.stream_end {
            if let Some(s) = d.active() {
                if c.rng.chance(2, 3) {
                    let pos = order.iter().position(|&t| t == s).unwrap_or(0);
                    let next = order.get(pos + 1).copied();
                    if d.set_stream(next).is_err() {
                        report(c, &d, "valid-selection-rejected", format!("set_stream({next:?}) after the end of stream {s} was rejected"));
                        return;
                    }
                    idle = 0;
                    continue;
                }
            }
        }
        if n == 0 && st.stream == 0 && st.output == 0 {
            idle += 1;
            if d.remaining() == 0 && idle > 6 {
                break;
            }
        } else {
            idle = 0;
        }
    }
    if let Some((s, m)) = d.problems.first().cloned() {
        report(c, &d, &s, m);
        return;
    }
    // no byte tagged for another stream was ever delivered, and every epoch is a prefix of E(s)
    for e in &d.epochs {
        if let Some(t) = e.stream {
            let tag = if t == wire::STDIN { 1u8 } else { 2 };
            if let Some(bad) = e.delivered.iter().position(|b| b >> 6 != tag) {
                report(c, &d, "foreign-stream-byte-delivered", format!("while stream {t} was active a byte tagged {:#04x} (not tag {tag}) was delivered at position {bad}", e.delivered[bad]));
                return;
            }
            if let Some(si) = model.streams.iter().find(|x| x.rtype == t) {
                if !si.content.starts_with(&e.delivered) {
                    report(c, &d, "delivered-not-prefix", format!("stream {t}: delivered bytes are not a prefix of the model content"));
                    return;
                }
            }
            if !e.delivered.is_empty() {
                c.l.count("epochs_with_data");
            }
        } else if !e.delivered.is_empty() {
            report(c, &d, "none-stream-delivers", "bytes delivered while the active stream was None".into());
            return;
        }
    }
    c.l.count("histories_completed");
    c.l.sig(mix(crate::rng::hash_bytes(18, &bytes), d.epochs.len() as u64));
    if c.index == 2 {
        c.l.sample(Json::obj().with("role", role).with("records", n).with("actions", d.trace.iter().take(30).cloned().collect::<Vec<_>>()));
    }
}

pub fn run(ctx: &Ctx, evidence: Option<&PathBuf>) -> i32 {
    ctx.run_fixed("selection-table", 9, table);
    ctx.run_fixed("role-tables", 1, role_tables);
    ctx.run_fixed("histories-directed", ctx.dn(400), history);
    let n = ctx.size(60_000, 6_000_000);
    ctx.run_cases("histories", n, history);
    ctx.gate("table_cells", 6 * 12);
    ctx.gate("rejections_verified_unchanged", 20);
    ctx.gate("reselect_keeps_data", 3);
    ctx.gate("forward_selections", 4);
    ctx.gate("held_records_verified_in_place", 50);
    ctx.gate("backward_or_foreign_selections_rejected", 50);
    ctx.gate("forward_selections_mid_record", 50);
    ctx.extra("exhaustive_subspace", "role x reachable current selection x requested Option<RecordType> (6 x 12 cells)");
    ctx.finish(
        "exploration",
        "(1) exhaustive table: 3 roles x every reachable current selection {first stream, later stream, None} x all 12 requested values (None + 11 record types): accept <=> the role's order allows it; on reject active_stream, stream_buffer, \
         output_buffer and the result of subsequent parsing (vs. an untouched clone) are unchanged; re-selecting the current stream keeps buffered data; a forward selection empties the stream buffer only. Requested types that are no input-stream types may be rejected by the documented debug assertion (counted). \
         (2) Role::input_streams / next_input_stream vs the specification table. (3) histories: record sequences with Stdin/Data records in any order, own and foreign ids, empty records anywhere, management records, under arbitrary chunkings, \
         with set_stream attempts (forward, backward, same, None, out-of-role) at arbitrary points incl. mid-record; lingering on a reported stream end (3 further parses must all report stream_end and deliver nothing, unread remainder must still start at the terminating record). \
         Oracle: every delivered byte carries the active stream's tag and continues E(s) prefix-exactly. distinct_nontrivial = distinct table cells + distinct completed history digests (set).",
        &["reference model spec.rs"],
        false,
        evidence,
    )
}
