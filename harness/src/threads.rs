//! Real-thread helpers: a park/unpark `block_on` with a quiescence (deadlock) detector.
//!
//! A deadlock is declared only when *every* thread of the group is either finished or parked
//! with its wake flag clear and the group's wake counter did not move over ten consecutive
//! scans — a state from which no further event is possible, so the verdict does not depend on
//! the speed of the machine. (The wall-clock watchdog in ./check only ever yields "inconclusive".)

use std::future::Future;
use std::sync::atomic::{AtomicBool, AtomicU64, AtomicUsize, Ordering};
use std::sync::Arc;
use std::task::{Context, Poll, Wake, Waker};
use std::time::Duration;

pub struct Group {
    pub total: usize,
    parked: AtomicUsize,
    finished: AtomicUsize,
    wakes: AtomicU64,
    pub deadlocked: AtomicBool,
}

impl Group {
    pub fn new(total: usize) -> Arc<Self> {
        Arc::new(Self { total, parked: AtomicUsize::new(0), finished: AtomicUsize::new(0), wakes: AtomicU64::new(0), deadlocked: AtomicBool::new(false) })
    }
    /// Marks one thread of the group as finished.
    pub fn finish(&self) {
        self.finished.fetch_add(1, Ordering::SeqCst);
    }
    pub fn wake_count(&self) -> u64 {
        self.wakes.load(Ordering::SeqCst)
    }
    /// Progress made outside of wakers (e.g. a plain thread that does not block_on).
    pub fn note_progress(&self) {
        self.wakes.fetch_add(1, Ordering::SeqCst);
    }
}

/// Calls `Group::finish` when dropped (so a panicking thread still counts as finished).
pub struct FinishGuard(pub Arc<Group>);
impl Drop for FinishGuard {
    fn drop(&mut self) {
        self.0.finish();
    }
}

struct ThreadWaker {
    thread: std::thread::Thread,
    flag: AtomicBool,
    group: Arc<Group>,
}
impl Wake for ThreadWaker {
    fn wake(self: Arc<Self>) {
        self.wake_by_ref();
    }
    fn wake_by_ref(self: &Arc<Self>) {
        self.group.wakes.fetch_add(1, Ordering::SeqCst);
        self.flag.store(true, Ordering::SeqCst);
        self.thread.unpark();
    }
}

#[derive(Debug)]
pub struct Deadlock;

/// Drives `f` on the calling thread. Returns Err(Deadlock) if the whole group is quiescent.
pub fn block_on<F: Future>(group: &Arc<Group>, f: F) -> Result<F::Output, Deadlock> {
    let mut f = Box::pin(f);
    let tw = Arc::new(ThreadWaker { thread: std::thread::current(), flag: AtomicBool::new(true), group: group.clone() });
    let waker = Waker::from(tw.clone());
    let mut cx = Context::from_waker(&waker);
    loop {
        if group.deadlocked.load(Ordering::SeqCst) {
            return Err(Deadlock);
        }
        if tw.flag.swap(false, Ordering::SeqCst) {
            if let Poll::Ready(v) = f.as_mut().poll(&mut cx) {
                return Ok(v);
            }
            continue;
        }
        group.parked.fetch_add(1, Ordering::SeqCst);
        let mut quiet_scans = 0;
        let mut last_wakes = group.wake_count();
        loop {
            std::thread::park_timeout(Duration::from_millis(20));
            if tw.flag.load(Ordering::SeqCst) || group.deadlocked.load(Ordering::SeqCst) {
                break;
            }
            let all_idle = group.parked.load(Ordering::SeqCst) + group.finished.load(Ordering::SeqCst) >= group.total;
            let w = group.wake_count();
            if all_idle && w == last_wakes {
                quiet_scans += 1;
                if quiet_scans >= 10 {
                    group.deadlocked.store(true, Ordering::SeqCst);
                    break;
                }
            } else {
                quiet_scans = 0;
                last_wakes = w;
            }
        }
        group.parked.fetch_sub(1, Ordering::SeqCst);
    }
}
