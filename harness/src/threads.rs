//! Real-thread helpers: a park/unpark `block_on` with a quiescence (deadlock) detector.
//!
//! A deadlock is declared only when *every* thread of the group is either finished or parked,
//! *no* thread has an unconsumed wake-up (`pending`, counted exactly: set when a waker flips a
//! thread's flag, cleared when that thread takes the flag) and the group's wake counter did not
//! move over ten consecutive scans — a state from which no further event is possible, so the
//! verdict does not depend on the speed of the machine: a thread that was woken but has not been
//! scheduled yet (seen on a heavily loaded machine) keeps `pending` above zero for as long as that
//! takes. (The wall-clock watchdog in ./check only ever yields "inconclusive".)

use std::future::Future;
use std::sync::atomic::{AtomicBool, AtomicU64, AtomicUsize, Ordering};
use std::sync::Arc;
use std::task::{Context, Poll, Wake, Waker};
use std::time::Duration;

pub struct Group {
    pub total: usize,
    parked: AtomicUsize,
    finished: AtomicUsize,
    wakes: AtomicU64,
    /// threads whose wake flag is set and not yet consumed
    pending: AtomicUsize,
    pub deadlocked: AtomicBool,
}

impl Group {
    pub fn new(total: usize) -> Arc<Self> {
        Arc::new(Self { total, parked: AtomicUsize::new(0), finished: AtomicUsize::new(0), wakes: AtomicU64::new(0), pending: AtomicUsize::new(0), deadlocked: AtomicBool::new(false) })
    }
    /// Marks one thread of the group as finished.
    pub fn finish(&self) {
        self.finished.fetch_add(1, Ordering::SeqCst);
    }
    pub fn wake_count(&self) -> u64 {
        self.wakes.load(Ordering::SeqCst)
    }
    /// Progress made outside of wakers (e.g. a plain thread that does not block_on).
    pub fn note_progress(&self) {
        self.wakes.fetch_add(1, Ordering::SeqCst);
    }
}

/// Calls `Group::finish` when dropped (so a panicking thread still counts as finished).
pub struct FinishGuard(pub Arc<Group>);
impl Drop for FinishGuard {
    fn drop(&mut self) {
        self.0.finish();
    }
}

struct ThreadWaker {
    thread: std::thread::Thread,
    /// (wake flag, block_on has returned) — under one lock so that `Group::pending` is exact
    state: std::sync::Mutex<(bool, bool)>,
    group: Arc<Group>,
}

impl ThreadWaker {
    /// Takes the wake flag; true if it was set.
    fn take(&self) -> bool {
        let mut st = self.state.lock().unwrap();
        if st.0 {
            st.0 = false;
            self.group.pending.fetch_sub(1, Ordering::SeqCst);
            true
        } else {
            false
        }
    }
    fn is_set(&self) -> bool {
        self.state.lock().unwrap().0
    }
    /// block_on is returning: later wake-ups (from waker clones that outlive it) no longer count.
    fn retire(&self) {
        let mut st = self.state.lock().unwrap();
        st.1 = true;
        if st.0 {
            st.0 = false;
            self.group.pending.fetch_sub(1, Ordering::SeqCst);
        }
    }
}
impl Wake for ThreadWaker {
    fn wake(self: Arc<Self>) {
        self.wake_by_ref();
    }
    fn wake_by_ref(self: &Arc<Self>) {
        self.group.wakes.fetch_add(1, Ordering::SeqCst);
        {
            let mut st = self.state.lock().unwrap();
            if !st.1 && !st.0 {
                st.0 = true;
                self.group.pending.fetch_add(1, Ordering::SeqCst);
            }
        }
        self.thread.unpark();
    }
}

#[derive(Debug)]
pub struct Deadlock;

/// Drives `f` on the calling thread. Returns Err(Deadlock) if the whole group is quiescent.
pub fn block_on<F: Future>(group: &Arc<Group>, f: F) -> Result<F::Output, Deadlock> {
    let mut f = Box::pin(f);
    let tw = Arc::new(ThreadWaker { thread: std::thread::current(), state: std::sync::Mutex::new((true, false)), group: group.clone() });
    group.pending.fetch_add(1, Ordering::SeqCst); // the initial poll is owed
    struct Retire(Arc<ThreadWaker>);
    impl Drop for Retire {
        fn drop(&mut self) {
            self.0.retire();
        }
    }
    let _retire = Retire(tw.clone());
    let waker = Waker::from(tw.clone());
    let mut cx = Context::from_waker(&waker);
    loop {
        if group.deadlocked.load(Ordering::SeqCst) {
            return Err(Deadlock);
        }
        if tw.take() {
            if let Poll::Ready(v) = f.as_mut().poll(&mut cx) {
                return Ok(v);
            }
            continue;
        }
        group.parked.fetch_add(1, Ordering::SeqCst);
        let mut quiet_scans = 0;
        let mut last_wakes = group.wake_count();
        loop {
            std::thread::park_timeout(Duration::from_millis(20));
            if tw.is_set() || group.deadlocked.load(Ordering::SeqCst) {
                break;
            }
            let all_idle = group.parked.load(Ordering::SeqCst) + group.finished.load(Ordering::SeqCst) >= group.total && group.pending.load(Ordering::SeqCst) == 0;
            let w = group.wake_count();
            if all_idle && w == last_wakes {
                quiet_scans += 1;
                if quiet_scans >= 10 {
                    group.deadlocked.store(true, Ordering::SeqCst);
                    break;
                }
            } else {
                quiet_scans = 0;
                last_wakes = w;
            }
        }
        group.parked.fetch_sub(1, Ordering::SeqCst);
    }
}
