//! C11 — a client abort ends exactly the aborted request; the connection stays usable.
//! Fault enumeration: an AbortRequest inserted after every record of scripted connections.

use std::path::PathBuf;

use fastcgi_server::parser::request;
use fastcgi_server::ExitStatus;

use crate::c02::config;
use crate::c07::{check_conn, conn_model, report, ReqKind};
use crate::conn::{self, Barrier, ConnCase, End, GenOpts, Need};
use crate::ev::{Case, Ctx};
use crate::gen;
use crate::handler::{Op, Script};
use crate::json::Json;
use crate::rng::{mix, Rng};
use crate::spec::{self, PreOutcome};
use crate::syncdrive::{self as sd, Plan, Policy, SDriver};
use crate::wire;

/// A base connection: all requests keep-conn, handlers returning Complete(x) of their own or
/// propagating the error.
fn base(rng: &mut Rng) -> ConnCase {
    let mut case = conn::gen_conn(rng, &GenOpts { max_requests: 3, extra_pct: 10, big: false, keep_conn_pct: 100, no_begin_extras: true });
    for s in &mut case.scripts {
        if !matches!(s.status, ExitStatus::Complete(_)) {
            s.status = ExitStatus::Complete(rng.u32());
        }
        // handlers of the C11 family: reading, buffered-reading, not reading, past EOF, awaiting writeable
        if rng.chance(1, 4) {
            s.ops.insert(0, Op::ReadToEnd);
        }
    }
    case
}

/// Inserts an AbortRequest record at byte offset `at` of request `j` and fixes up all offsets.
fn with_abort(rng: &mut Rng, base: &ConnCase, j: usize, at: usize, id: u16) -> ConnCase {
    let mut rec = Vec::new();
    // "any body/padding on the abort record itself": mostly small, sometimes so large that
    // content + padding exceeds 65535 (the skip arithmetic must not be done in 16 bits)
    let huge = rng.chance(1, 16);
    let body = if huge { let n = 65_281 + rng.below(255); rng.bytes(n) } else { rng.rbytes(41) };
    let padding = if huge { 255 } else { gen::gen_padding(rng) };
    wire::record(&mut rec, wire::ABORT, id, &body, padding);
    let mut case = base.clone();
    case.wire.splice(at..at, rec.iter().copied());
    let n = rec.len();
    for (k, r) in case.reqs.iter_mut().enumerate() {
        if k > j {
            r.start += n;
        }
        if k >= j {
            r.end += n;
        }
    }
    case.barriers = case.reqs.iter().enumerate().map(|(i, r)| Barrier { offset: r.end, need: Need::Ended(i + 1) }).collect();
    case
}

fn run_async(c: &mut Case, case: &ConnCase, what: &str) -> bool {
    run_async_ext(c, case, what, false)
}

/// `must_notice`: the abort is known to be buffered before the handler's first read and the handler
/// reads until an error or end-of-file, so it has to see the connection-aborted error.
fn run_async_ext(c: &mut Case, case: &ConnCase, what: &str, must_notice: bool) -> bool {
    let model = match conn_model(case) {
        Ok(m) => m,
        Err(e) => {
            c.violation("harness-model", Json::obj().with("problem", e).with("what", what));
            return false;
        }
    };
    let rng = Rng::new(c.rng.next_u64());
    let (mut w, _runner) = conn::build_world(case, rng);
    if must_notice {
        w.pipe.lock().unwrap().whole_reads = true;
    }
    let end = w.run(400_000, |_, _| {});
    c.l.evaluations += 1;
    match end {
        End::Budget => {
            c.l.count("step_budget_exhausted");
            return true;
        }
        End::Quiescent => {
            report(c, case, &w, "connection-stalled", format!("[{what}] quiescent with Token::run unfinished: peer sent {}/{} bytes", w.peer.sent, w.peer.wire.len()));
            return false;
        }
        End::Finished => {}
    }
    let out = w.pipe.lock().unwrap_or_else(std::sync::PoisonError::into_inner).outbox.clone();
    let invs = w.log.lock().unwrap().invocations.clone();
    match check_conn(case, &model, &out, &invs, case.reqs.len(), c.l) {
        Ok(_) => {
            for (i, m) in model.iter().enumerate() {
                match m.kind {
                    ReqKind::AbortedInParams => c.l.count("aborts_during_params"),
                    ReqKind::AbortedLater(_) => {
                        c.l.count("aborts_after_preamble");
                        let k = model[..i].iter().filter(|x| x.kind != ReqKind::AbortedInParams).count();
                        if let Some(inv) = invs.get(k) {
                            if inv.errors.iter().any(|(_, e)| *e == std::io::ErrorKind::ConnectionAborted) {
                                c.l.count("handlers_that_saw_connection_aborted");
                                if matches!(inv.returned, Some(Err(_))) {
                                    c.l.count("abort_status_ABRT_checked");
                                } else {
                                    c.l.count("abort_with_own_status_checked");
                                }
                            } else {
                                c.l.count("handlers_that_never_noticed_the_abort");
                                if must_notice {
                                    report(c, case, &w, "buffered-abort-not-reported", format!("[{what}] the AbortRequest was buffered before the handler's first read, the handler read until end-of-file / error, and no read failed with ConnectionAborted (reads ended with {:?})", inv.eofs));
                                    return false;
                                }
                            }
                        }
                    }
                    ReqKind::Normal => {}
                }
            }
            if model.iter().any(|m| m.kind != ReqKind::Normal) && model.last().map_or(false, |m| m.kind == ReqKind::Normal) && model.len() > 1 {
                c.l.count("requests_served_after_an_abort");
            }
            true
        }
        Err((sig, msg)) => {
            report(c, case, &w, &sig, format!("[{what}] {msg}"));
            false
        }
    }
}

/// The same position at the level of the two parsers.
fn run_sync(c: &mut Case, case: &ConnCase, j: usize) -> bool {
    let r = &case.reqs[j];
    let wire_j = &case.wire[r.start..];
    let cfg = config(case.buffer, case.conns);
    let pre = spec::model_preamble(wire_j, 0);
    let PreOutcome::Done(info) = &pre.outcome else { return true };
    let mut chunk = sd::pick_chunking(&mut c.rng, &[]);
    let run = sd::drive_request(request::Parser::new(&cfg), wire_j, 0, wire_j.len(), &mut chunk, &mut c.rng, false);
    c.l.evaluations += 1;
    let fail = |c: &mut Case, sig: &str, msg: String| {
        c.violation(format!("sync:{sig}"), Json::obj().with("problem", msg).with("connection", case.desc.clone()).with("wire_hex", crate::json::hex_cap(wire_j, 20000)));
        false
    };
    if let Some((s, m)) = run.problems.first() {
        return fail(c, s, m.clone());
    }
    if !run.done {
        return fail(c, "preamble-not-done", "request parser not done after the complete input".into());
    }
    // replies produced by the request parser (incl. the EndRequest for an abort during Params)
    match spec::decode_output(&run.out) {
        Ok((recs, tail)) if tail == run.out.len() => {
            if let Err(m) = spec::replies_match(&pre.replies, &recs, &case.conns.to_string()) {
                return fail(c, "preamble-replies", m);
            }
            if !pre.aborted.is_empty() {
                c.l.count("sync_aborts_during_params");
            }
        }
        _ => return fail(c, "output-malformed", "request parser output is not a record sequence".into()),
    }
    let fed = run.fed;
    let sp = match run.parser.expect("parser").into_stream_parser() {
        Ok(p) => p,
        Err(e) => return fail(c, "preamble-error", sd::err_kind(&e)),
    };
    if sd::view(&sp.request).env != info.env {
        return fail(c, "env-after-abort", "environment of the request following an aborted one differs from the model".into());
    }
    let model = spec::model_streams(wire_j, info.end_off, info.id, info.role);
    let Some(abort_off) = model.abort_off else { return true };
    let order = wire::role_input_streams(info.role);
    let mut d = SDriver::new(sp, wire_j, fed, wire_j.len());
    let pol = Policy::random(&mut c.rng);
    let plans = vec![Plan::ReadAll; order.len()];
    sd::run_schedule(&mut d, &mut c.rng, &mut chunk, &pol, &plans, order, Some(&model));
    if let Some((s, m)) = d.problems.first().cloned() {
        return fail(c, &s, m);
    }
    // does the caller ever reach the abort? (not if an earlier stream's terminator is never passed)
    match d.err.as_deref() {
        Some("AbortRequest") => {
            if d.fed < abort_off + 8 {
                return fail(c, "abort-reported-early", format!("AbortRequest reported after {} bytes, the abort header ends at {}", d.fed, abort_off + 8));
            }
            // sticky until converted
            for _ in 0..3 {
                d.feed_parse(0, None);
            }
            if d.err.as_deref() != Some("AbortRequest") || !d.ok() {
                return fail(c, "abort-not-sticky", "a later parse() did not repeat the AbortRequest error".into());
            }
            // conversion: the abort header is retained and skipped by the next request parser
            match d.probe_leftover() {
                Some(off) if off == abort_off => c.l.count("sync_abort_header_retained"),
                Some(off) => return fail(c, "abort-leftover", format!("unread remainder starts at {off}, the abort record is at {abort_off}")),
                None => {
                    let p = d.problems.first().cloned();
                    return fail(c, "abort-conversion", format!("{p:?}"));
                }
            }
            c.l.count("sync_aborts_after_preamble");
        }
        Some(other) => return fail(c, "wrong-error", format!("stream parser failed with {other}, expected AbortRequest")),
        None => {
            if d.fed >= abort_off + 8 && d.cnt.wedges == 0 && d.cnt.budget_exhausted == 0 {
                return fail(c, "abort-not-reported", format!("all {} bytes fed (abort header ends at {}) but parse() never failed with AbortRequest", d.fed, abort_off + 8));
            }
        }
    }
    true
}

fn enumerate(c: &mut Case) {
    let b = base(&mut c.rng);
    if c.index == 0 {
        c.l.sample(b.desc.clone());
    }
    // without any abort the connection must be clean (sanity of the base)
    if !run_async(c, &b, "no abort") {
        return;
    }
    let j = c.rng.below(b.reqs.len());
    let r = b.reqs[j].clone();
    let (recs, _) = wire::scan(&b.wire[r.start..r.end]);
    let own = r.preamble.id;
    // positions: before the first record, after every record
    let mut positions: Vec<usize> = vec![r.start];
    positions.extend(recs.iter().map(|x| r.start + x.end));
    for (pi, &at) in positions.iter().enumerate() {
        if c.ctx.miri() && pi % 4 != 1 {
            continue;
        }
        for foreign in [false, true] {
            if foreign && !c.rng.chance(1, 3) {
                continue;
            }
            let id = if foreign { gen::foreign_id(&mut c.rng, own).max(1) } else { own };
            if foreign && id == own {
                continue;
            }
            let case = with_abort(&mut c.rng, &b, j, at, id);
            let what = format!("abort for {} id after record #{pi} of request {j} (offset {at})", if foreign { "a foreign" } else { "the active" });
            if !run_async(c, &case, &what) {
                return;
            }
            c.l.count(if foreign { "foreign_id_abort_positions" } else { "active_id_abort_positions" });
            // a role without input streams: the handler can only learn of the abort if a read
            // reports it. Deliver everything in one piece over an ideal transport with a buffer that
            // holds it all (the abort is then buffered before the handler runs) and let the handler
            // read until end-of-file / error: that read has to fail with the abort error.
            if !foreign && r.preamble.role == wire::AUTHORIZER && case.wire.len() + 64 <= 16_384 && c.rng.chance(1, 2) {
                let mut one = case.clone();
                one.beh = crate::transport::Behaviour::ideal();
                one.max_piece = usize::MAX;
                one.buffer = 16_384;
                one.scripts[j] = crate::handler::Script { ops: vec![Op::ReadToEnd], propagate: c.rng.chance(1, 2), status: one.scripts[j].status };
                let aborted_later = conn_model(&one).map_or(false, |m| matches!(m.get(j).map(|x| &x.kind), Some(ReqKind::AbortedLater(_))));
                if aborted_later {
                    if !run_async_ext(c, &one, &format!("{what}, delivered in one piece"), true) {
                        return;
                    }
                    c.l.count("buffered_aborts_for_roles_without_input");
                }
            }
            c.l.sig(mix(crate::rng::hash_bytes(11, &case.wire[..case.wire.len().min(96)]), (at as u64) << 1 | u64::from(foreign)));
            if !foreign && !run_sync(c, &case, j) {
                return;
            }
        }
    }
    c.l.count("base_connections_fully_enumerated");
}

pub fn run(ctx: &Ctx, evidence: Option<&PathBuf>) -> i32 {
    ctx.run_fixed("directed", if ctx.miri() { 1 } else { ctx.dn(60) }, enumerate);
    let n = ctx.size3(400, 40_000, 1);
    ctx.run_cases("abort-positions", n, enumerate);
    ctx.gate("active_id_abort_positions", 500);
    ctx.gate("foreign_id_abort_positions", 100);
    ctx.gate("aborts_during_params", 50);
    ctx.gate("aborts_after_preamble", 100);
    ctx.gate("abort_status_ABRT_checked", 20);
    ctx.gate("abort_with_own_status_checked", 20);
    ctx.gate("requests_served_after_an_abort", 50);
    ctx.gate("sync_aborts_after_preamble", 50);
    ctx.gate("sync_aborts_during_params", 20);
    if !ctx.miri() {
        ctx.gate("buffered_aborts_for_roles_without_input", 10);
    }
    ctx.finish(
        "fault_enumeration",
        "for each scripted keep-alive connection (1..3 requests, all roles, management / stray records, handlers reading / buffered-reading / not reading / reading past EOF / awaiting writeable, returning their own Complete(x) or propagating the error): an AbortRequest (body 0..40 B, padding 0..255; one in 16 with a 65281..65535 B body and 255 B padding) is inserted \
         before the first record and after EVERY record of one request's preamble and input streams, for the active id and (sampled) for foreign ids; each variant runs through Token::run under the deterministic executor with short / pending transport, and the active-id variants additionally through request::Parser + stream::Parser directly. \
         Oracle: abort during Params => exactly one EndRequest(RequestComplete, id) from the parser, no handler invocation, following requests served with exact environment / streams / EndRequest; abort later => handler reads deliver only a prefix of E(s), never an end-of-file on the aborted stream, the only error kind is ConnectionAborted, \
         exactly one EndRequest(RequestComplete) with app status ABRT if the handler propagated the error and its own status otherwise; foreign-id aborts change nothing (full C07 oracle); for Authorizer requests (no input stream) half of the post-preamble positions are repeated with the whole request delivered in one piece and read in one transport read, and a handler that reads until end-of-file / error: that read must fail with ConnectionAborted; sync: AbortRequest reported only once the abort header was fed, repeated by later calls, abort header retained as the unread remainder, next request parsed exactly. \
         distinct_nontrivial = distinct (connection, abort position, active/foreign id) variants executed and judged (set).",
        &["handlers that exit with Overloaded/UnknownRole are outside C11 (C07 covers the status mapping)", "reference model spec.rs"],
        false,
        evidence,
    )
}
