//! C03 — parsers are total and chunking-invariant on arbitrary, hostile input.

use std::path::PathBuf;

use fastcgi_server::parser::request;

use crate::c02::config;
use crate::ev::{guarded, panic_signature, Case, Ctx, Scale};
use crate::gen::{self, ReqSpec};
use crate::json::{hex_cap, Json};
use crate::rng::{hash_bytes, mix, Rng};
use crate::spec;
use crate::syncdrive::{self as sd, Chunking, Plan, Policy, SDriver};
use crate::wire;

/// Everything about one run that must not depend on the chunking / schedule.
#[derive(Clone, Debug, PartialEq, Eq)]
struct Outcome {
    /// Ok(id, role, flags, env digest, leftover offset) or the fatal error
    request: Result<(u16, u16, u8, u64, usize), String>,
    pre_output: Vec<u8>,
    /// per epoch (active stream, delivered bytes) — compared only on success
    streams: Vec<(Option<u8>, Vec<u8>)>,
    stream_output: Vec<u8>,
    stream_err: Option<String>,
    /// offset of the unread remainder if the final state is a record boundary
    remainder: Option<usize>,
    wedged: bool,
}

struct RunInfo {
    outcome: Outcome,
    fed_at_stream_err: usize,
}

fn valid_connection(rng: &mut Rng) -> (Vec<u8>, usize) {
    let big_skip = rng.chance(1, 25);
    let buffer = if big_skip { 70_000 + rng.below(100_000) } else { *rng.pick(&[24usize, 32, 64, 128, 500, 8192, 8192, 0, 10, 27, 100, 1001]) };
    let eff = buffer.max(24);
    let mut bytes = Vec::new();
    for i in 0..1 + rng.below(2) {
        let spec = ReqSpec {
            id: gen::gen_request_id(rng),
            role: gen::gen_role(rng),
            flags: rng.u8(),
            max_pairs: 5,
            max_pair: eff - 13,
            big_pairs: false,
            max_stream_records: 5,
            big_records: false,
            extra_pct_pre: if big_skip { 50 } else { 20 },
            extra_pct_stream: 25,
            tag_base: i as u8,
            extras_pre: if big_skip { &gen::EXTRAS_BIG } else { &gen::EXTRAS_PRE_REPLIES },
            extras_stream: if big_skip { &gen::EXTRAS_BIG } else { &gen::EXTRAS_STREAM_REPLIES },
            marker: None,
        };
        gen::push_request(rng, &mut bytes, &spec);
    }
    (bytes, buffer)
}

fn mutate(rng: &mut Rng, bytes: &mut Vec<u8>) -> &'static str {
    if bytes.is_empty() {
        return "none";
    }
    let (recs, _) = wire::scan(bytes);
    let pick_rec = |rng: &mut Rng| recs[rng.below(recs.len().max(1)).min(recs.len().saturating_sub(1))].clone();
    match rng.below(14) {
        0 if !recs.is_empty() => {
            let r = pick_rec(rng);
            bytes[r.off] = *rng.pick(&[0u8, 2, 255, 1]);
            "version-byte"
        }
        1 if !recs.is_empty() => {
            let r = pick_rec(rng);
            bytes[r.off + 1] = rng.u8();
            "type-byte"
        }
        2 if !recs.is_empty() => {
            let r = pick_rec(rng);
            let k = r.off + 4 + rng.below(2);
            bytes[k] = *rng.pick(&[0u8, 1, 8, 0xff, rng.clone().u8()]);
            "content-length-byte"
        }
        3 if !recs.is_empty() => {
            let r = pick_rec(rng);
            bytes[r.off + 6] = *rng.pick(&[0u8, 1, 7, 8, 255]);
            "padding-byte"
        }
        4 if !recs.is_empty() => {
            let r = pick_rec(rng);
            let k = r.off + 2 + rng.below(2);
            bytes[k] = *rng.pick(&[0u8, 1, 0xff]);
            "request-id-byte"
        }
        5 => {
            let k = rng.below(bytes.len());
            bytes.truncate(k);
            "truncate"
        }
        6 => {
            let a = rng.below(bytes.len());
            let l = rng.below((bytes.len() - a).min(64) + 1);
            let span = bytes[a..a + l].to_vec();
            let at = rng.below(bytes.len() + 1);
            bytes.splice(at..at, span);
            "duplicate-span"
        }
        7 => {
            let a = rng.below(bytes.len());
            let l = rng.below((bytes.len() - a).min(64) + 1);
            bytes.drain(a..a + l);
            "delete-span"
        }
        8 => {
            // a length prefix announcing up to 2^31-1 bytes (or the 0x80 00 00 00 form)
            let k = rng.below(bytes.len());
            let v: [u8; 4] = *rng.pick(&[[0xff, 0xff, 0xff, 0xff], [0x80, 0, 0, 0], [0xff, 0xff, 0xff, 0xf0], [0x80, 0, 1, 0]]);
            for (i, b) in v.iter().enumerate() {
                if k + i < bytes.len() {
                    bytes[k + i] = *b;
                }
            }
            "huge-length-prefix"
        }
        9 if !recs.is_empty() => {
            // BeginRequest with wrong length / id 0 / unknown role
            if let Some(r) = recs.iter().find(|r| r.rtype == wire::BEGIN) {
                match rng.below(3) {
                    0 => bytes[r.off + 5] = *rng.pick(&[0u8, 7, 9, 16]),
                    1 => {
                        bytes[r.off + 2] = 0;
                        bytes[r.off + 3] = 0;
                    }
                    _ => {
                        if r.len() >= 2 {
                            bytes[r.content.start] = rng.u8();
                            bytes[r.content.start + 1] = *rng.pick(&[0u8, 4, 255]);
                        }
                    }
                }
            }
            "begin-request-field"
        }
        10 => {
            let k = rng.below(bytes.len());
            bytes[k] ^= 1 << rng.below(8);
            "bit-flip"
        }
        11 => {
            let k = rng.below(bytes.len());
            bytes[k] = rng.u8();
            "byte-overwrite"
        }
        12 if !recs.is_empty() => {
            // an AbortRequest for the active id somewhere
            let r = pick_rec(rng);
            let mut rec = Vec::new();
            let body = rng.rbytes(9);
            wire::record(&mut rec, wire::ABORT, r.id, &body, rng.u8() & 7);
            bytes.splice(r.off..r.off, rec);
            "insert-abort"
        }
        _ => {
            let extra = rng.rbytes(24);
            let at = rng.below(bytes.len() + 1);
            bytes.splice(at..at, extra);
            "insert-garbage"
        }
    }
}

/// Runs one input through both parsers with one chunking + one schedule.
/// Returns Err((signature, message)) on a totality / bookkeeping breach.
fn run_once(c: &mut Case, bytes: &[u8], buffer: usize, chunk: Chunking, extra_calls: bool) -> Result<RunInfo, (String, String)> {
    let cfg = config(buffer, 5);
    let mut chunk = chunk;
    let run = sd::drive_request(request::Parser::new(&cfg), bytes, 0, bytes.len(), &mut chunk, &mut c.rng, false);
    c.l.add("parse_calls", run.calls);
    if let Some((s, m)) = run.problems.first() {
        return Err((s.clone(), m.clone()));
    }
    let mut parser = run.parser.expect("parser");
    let mut fed = run.fed;
    let mut pre_output = run.out.clone();
    if !run.done {
        // conversions at a non-final state must be refused without panicking
        for conv in 0..2 {
            let p = parser.clone();
            let r = guarded(move || if conv == 0 { p.into_request().map(|_| ()) } else { p.into_stream_parser().map(|_| ()) });
            match r {
                Ok(Err(e)) if sd::err_kind(&e) == "Interrupted" => c.l.count("interrupted_conversions"),
                Ok(other) => return Err(("conversion-at-non-final-state".into(), format!("conversion of an unfinished request parser returned {:?}", other.map_err(|e| sd::err_kind(&e))))),
                Err(p) => return Err((panic_signature(&p), format!("conversion panicked: {p}"))),
            }
        }
        let o = Outcome { request: Err("Incomplete".into()), pre_output, streams: vec![], stream_output: vec![], stream_err: None, remainder: None, wedged: false };
        return Ok(RunInfo { outcome: o, fed_at_stream_err: 0 });
    }
    // further calls after `done` must not change anything nor produce output
    let probe = parser.clone();
    if extra_calls {
        let before = guarded(|| probe.into_request().map(|(r, l)| (sd::view(&r), l.len())).map_err(|e| sd::err_kind(&e))).map_err(|p| (panic_signature(&p), p))?;
        for k in 0..4 {
            let space = parser.input_buffer().len();
            let n = if k % 2 == 0 { 0 } else { space.min(bytes.len() - fed).min(1 + c.rng.below(9)) };
            parser.input_buffer()[..n].copy_from_slice(&bytes[fed..fed + n]);
            fed += n;
            let r = guarded(|| {
                let y = parser.parse(n);
                (y.done, y.output.len())
            });
            match r {
                Ok((true, 0)) => {}
                Ok((d, o)) => return Err(("call-after-done-changes-state".into(), format!("parse({n}) after done returned done={d} with {o} output bytes"))),
                Err(p) => return Err((panic_signature(&p), format!("parse after done panicked: {p}"))),
            }
            c.l.count("calls_after_terminal_state");
        }
        let p2 = parser.clone();
        let after = guarded(|| p2.into_request().map(|(r, l)| (sd::view(&r), l.len())).map_err(|e| sd::err_kind(&e))).map_err(|p| (panic_signature(&p), p))?;
        let same = match (&before, &after) {
            (Ok((v1, l1)), Ok((v2, l2))) => v1 == v2 && *l2 == *l1 + (fed - run.fed),
            (Err(a), Err(b)) => a == b,
            _ => false,
        };
        if !same {
            return Err(("result-changes-after-done".into(), format!("into_request() before further calls: {before:?}, after: {after:?}")));
        }
    }
    let p3 = parser.clone();
    let (req_outcome, end_off) = match guarded(|| p3.into_request()).map_err(|p| (panic_signature(&p), p))? {
        Ok((req, leftover)) => {
            let v = sd::view(&req);
            let mut h = 0u64;
            for (k, val) in &v.env {
                h = mix(h, hash_bytes(hash_bytes(1, k.as_bytes()), val));
            }
            let end = fed - leftover.len();
            if leftover[..] != bytes[end..fed] {
                return Err(("leftover-not-suffix".into(), format!("into_request() leftover ({} bytes) is not the suffix of the {} bytes fed", leftover.len(), fed)));
            }
            (Ok((v.id, v.role, v.flags, h, end)), end)
        }
        Err(e) => (Err(sd::err_kind(&e)), 0),
    };
    if req_outcome.is_err() {
        let o = Outcome { request: req_outcome, pre_output, streams: vec![], stream_output: vec![], stream_err: None, remainder: None, wedged: false };
        return Ok(RunInfo { outcome: o, fed_at_stream_err: 0 });
    }
    let _ = &mut pre_output;
    // ---- stream phase ----------------------------------------------------------------------
    let sp = match guarded(|| parser.into_stream_parser()).map_err(|p| (panic_signature(&p), p))? {
        Ok(p) => p,
        Err(e) => return Err(("into-stream-parser-error".into(), sd::err_kind(&e))),
    };
    let role = u16::from(sp.request.role);
    let id = sp.request.request_id.get();
    let order = wire::role_input_streams(role);
    let mut d = SDriver::new(sp, bytes, fed, bytes.len());
    let pol = Policy::random(&mut c.rng);
    let plans = vec![Plan::ReadAll; order.len()];
    sd::run_schedule(&mut d, &mut c.rng, &mut chunk, &pol, &plans, order, None);
    c.l.add("parse_calls", d.cnt.parse_calls);
    if let Some((s, m)) = d.problems.first() {
        return Err((s.clone(), m.clone()));
    }
    let fed_at_err = d.fed;
    if d.err.is_some() && d.err.as_deref() != Some("panic") {
        // a fatal error is reported again by every later call and no further output is produced
        let out_len = d.out_all.len();
        for _ in 0..4 {
            let len = d.shadow_stream.len();
            d.consume_stream(len);
            if c.rng.chance(1, 2) {
                d.compress();
            }
            let space = d.space();
            let n = space.min(d.remaining()).min(c.rng.below(12));
            let dest = if c.rng.chance(1, 2) { Some(8) } else { None };
            d.feed_parse(n, dest);
            c.l.count("calls_after_terminal_state");
        }
        if let Some((s, m)) = d.problems.first() {
            return Err((s.clone(), m.clone()));
        }
        if d.out_all.len() != out_len {
            return Err(("output-after-fatal".into(), format!("output grew by {} bytes after a fatal error", d.out_all.len() - out_len)));
        }
    }
    let remainder = if d.err.is_none() && d.cnt.wedges == 0 { d.probe_leftover() } else { None };
    if let Some((s, m)) = d.problems.first() {
        return Err((s.clone(), m.clone()));
    }
    // reported stream bytes are a prefix of the true content, success or not
    let sm = spec::model_streams(bytes, end_off, id, role);
    for e in &d.epochs {
        if let Some(t) = e.stream {
            if let Some(si) = sm.streams.iter().find(|x| x.rtype == t) {
                if !si.content.starts_with(&e.delivered) {
                    return Err((
                        "delivered-not-prefix".into(),
                        format!("stream {t}: the {} bytes reported are not a prefix of the stream's content per the record scanner ({} bytes)", e.delivered.len(), si.content.len()),
                    ));
                }
            }
        }
    }
    let o = Outcome {
        request: req_outcome,
        pre_output,
        streams: d.epochs.iter().map(|e| (e.stream, e.delivered.clone())).collect(),
        stream_output: d.out_all.clone(),
        stream_err: d.err.clone(),
        remainder,
        wedged: d.cnt.wedges > 0 || d.cnt.budget_exhausted > 0,
    };
    Ok(RunInfo { outcome: o, fed_at_stream_err: fed_at_err })
}

fn compare(a: &Outcome, b: &Outcome) -> Option<String> {
    if a.request != b.request {
        return Some(format!("request outcome differs: {:?} vs {:?}", a.request, b.request));
    }
    if a.pre_output != b.pre_output {
        return Some(format!("output of the request parser differs: {} vs {} bytes", a.pre_output.len(), b.pre_output.len()));
    }
    if a.wedged || b.wedged {
        return None;
    }
    if a.stream_err != b.stream_err {
        return Some(format!("stream parser error differs: {:?} vs {:?}", a.stream_err, b.stream_err));
    }
    if a.stream_output != b.stream_output {
        return Some(format!("output of the stream parser differs: {} vs {} bytes", a.stream_output.len(), b.stream_output.len()));
    }
    if a.stream_err.is_none() {
        // on success: delivered bytes and unread remainder are determined by the input alone
        if a.streams != b.streams {
            let d = a.streams.iter().zip(&b.streams).position(|(x, y)| x != y);
            return Some(format!("delivered stream bytes differ (first differing epoch {d:?}; {} vs {} epochs)", a.streams.len(), b.streams.len()));
        }
        if a.remainder != b.remainder {
            return Some(format!("unread remainder differs: {:?} vs {:?}", a.remainder, b.remainder));
        }
    }
    None
}

fn check_input(c: &mut Case, bytes: &[u8], buffer: usize, what: &str, n_chunkings: usize) -> bool {
    let structural = sd::structural_offsets(bytes);
    let mut fams = sd::all_chunkings(&mut c.rng, &structural);
    // canonical first, then a shuffled rest
    let canonical = fams.remove(0);
    c.rng.shuffle(&mut fams);
    fams.insert(0, canonical);
    fams.push(Chunking::Random(5));
    let mut first: Option<(Outcome, &'static str)> = None;
    for ch in fams.into_iter().take(n_chunkings) {
        if bytes.len() > 60_000 && matches!(ch, Chunking::OneByte) {
            continue;
        }
        let fam = ch.family();
        let r = run_once(c, bytes, buffer, ch, true);
        c.l.evaluations += 1;
        match r {
            Err((sig, msg)) => {
                c.violation(sig, Json::obj().with("input_kind", what).with("buffer_size", buffer).with("chunking", fam).with("problem", msg).with("input_hex", hex_cap(bytes, 20000)));
                return false;
            }
            Ok(info) => {
                let o = info.outcome;
                match &o.request {
                    Err(k) => c.l.count(&format!("request_outcome_{}", k.split('(').next().unwrap_or(""))),
                    Ok(_) => {
                        c.l.count("request_outcome_Ok");
                        match &o.stream_err {
                            Some(k) => c.l.count(&format!("stream_outcome_{}", k.split('(').next().unwrap_or(""))),
                            None => c.l.count("stream_outcome_clean"),
                        }
                    }
                }
                if o.wedged {
                    c.l.count("stream_wedged");
                }
                if let Some((f, ffam)) = &first {
                    if let Some(diff) = compare(f, &o) {
                        c.violation(
                            "outcome-depends-on-chunking",
                            Json::obj()
                                .with("input_kind", what)
                                .with("buffer_size", buffer)
                                .with("chunkings", format!("{ffam} vs {fam}"))
                                .with("problem", diff)
                                .with("input_hex", hex_cap(bytes, 20000)),
                        );
                        return false;
                    }
                } else {
                    first = Some((o, fam));
                }
            }
        }
    }
    true
}

/// Exhaustive header sweep at fixed injection points of a base scenario.
fn header_sweep(c: &mut Case) {
    // case index -> (version, type)
    let versions = [0u8, 1, 2, 255];
    let version = versions[(c.index / 256) as usize % 4];
    let t = (c.index % 256) as u8;
    let own = 0x0102u16;
    // base scenario pieces
    let mut payload = Vec::new();
    wire::nv_pair(&mut payload, b"AB", b"cd", false, false);
    wire::nv_pair(&mut payload, b"LONGER_NAME", b"value", false, true);
    let mut pieces: Vec<Vec<u8>> = Vec::new();
    let mut p = Vec::new();
    wire::begin_request(&mut p, own, wire::FILTER, 1, 0);
    pieces.push(p);
    let mut p = Vec::new();
    wire::record(&mut p, wire::PARAMS, own, &payload[..9], 0); // pair straddles the record boundary
    pieces.push(p);
    let mut p = Vec::new();
    wire::record(&mut p, wire::PARAMS, own, &payload[9..], 3);
    pieces.push(p);
    let mut p = Vec::new();
    wire::record(&mut p, wire::PARAMS, own, &[], 0);
    pieces.push(p);
    let mut p = Vec::new();
    wire::record(&mut p, wire::STDIN, own, &gen::tagged(1, 0, 12), 4);
    pieces.push(p);
    let mut p = Vec::new();
    wire::record(&mut p, wire::STDIN, own, &[], 0);
    pieces.push(p);
    let mut p = Vec::new();
    wire::record(&mut p, wire::DATA, own, &gen::tagged(2, 0, 5), 0);
    wire::record(&mut p, wire::DATA, own, &[], 0);
    wire::record(&mut p, wire::GETVALUES, 0, b"\x0f\x00FCGI_MPXS_CONNS", 1);
    pieces.push(p);
    for id in [0u16, own, 0x0201] {
        for clen in [0u16, 1, 7, 8, 9, 255, 65535] {
            for pad in [0u8, 1, 255] {
                // inject at every piece boundary (0 = before BeginRequest ... 6 = before the tail)
                let pos = c.rng.below(pieces.len());
                let mut bytes = Vec::new();
                for (i, pc) in pieces.iter().enumerate() {
                    if i == pos {
                        let i2 = id.to_be_bytes();
                        let l2 = clen.to_be_bytes();
                        bytes.extend_from_slice(&[version, t, i2[0], i2[1], l2[0], l2[1], pad, 0]);
                        if clen <= 255 {
                            // a matching body where the length is small; otherwise the record swallows the tail
                            let body: Vec<u8> = if t == wire::BEGIN && clen == 8 { wire::begin_body(*c.rng.pick(&[1u16, 3, 9]), 1).to_vec() } else { c.rng.bytes(usize::from(clen)) };
                            bytes.extend_from_slice(&body);
                            bytes.extend(std::iter::repeat(0).take(usize::from(pad)));
                        }
                    }
                    bytes.extend_from_slice(pc);
                }
                let buffer = *c.rng.pick(&[24usize, 64, 8192]);
                if !check_input(c, &bytes, buffer, "header-sweep", 2) {
                    return;
                }
                c.l.count("headers_injected");
                c.l.count(&format!("injection_point_{pos}"));
            }
        }
    }
    c.l.sig(0x4ead_0000 | c.index);
}

/// The connection task drives the parsers with its own (legal) call pattern: hostile input
/// through Token::run must end the task without panic, hang or spin, and whatever it wrote is a
/// sequence of well-formed records.
fn async_hostile(c: &mut Case) {
    use crate::conn::{self, ConnCase, End};
    let (mut bytes, buffer) = valid_connection(&mut c.rng);
    let mut kinds = Vec::new();
    for _ in 0..1 + c.rng.below(3) {
        kinds.push(mutate(&mut c.rng, &mut bytes));
    }
    let scripts = (0..3)
        .map(|_| {
            let mut s = crate::handler::gen_script(&mut c.rng, wire::RESPONDER, false);
            // role-agnostic: plain reads / writes only
            s.ops.retain(|o| !matches!(o, crate::handler::Op::SetStream(_)));
            s
        })
        .collect();
    let case = ConnCase {
        wire: bytes.clone(),
        reqs: Vec::new(),
        scripts,
        buffer,
        conns: 2,
        beh: crate::transport::Behaviour::random(&mut c.rng),
        barriers: Vec::new(),
        max_piece: *c.rng.pick(&[1usize, 13, 100_000]),
        close_at_end: true,
        desc: Json::obj().with("mutations", kinds.iter().map(|k| Json::from(*k)).collect::<Vec<_>>()).with("buffer_size", buffer).with("input_len", bytes.len()),
    };
    let (mut w, _runner) = conn::build_world(&case, Rng::new(c.rng.next_u64()));
    let end = w.run(400_000, |_, _| {});
    c.l.evaluations += 1;
    let out = w.pipe.lock().unwrap_or_else(std::sync::PoisonError::into_inner).outbox.clone();
    let fail = |c: &mut Case, sig: &str, msg: String| {
        c.violation(format!("async:{sig}"), Json::obj().with("case", case.desc.clone()).with("problem", msg).with("input_hex", hex_cap(&bytes, 20000)).with("output_hex", hex_cap(&out, 2000)).with("last_actions", conn::trace_tail(&w, 40)));
    };
    match end {
        End::Budget => c.l.count("async_step_budget_exhausted"),
        End::Quiescent => fail(c, "task-did-not-terminate", format!("all {} input bytes delivered and the peer closed, but Token::run has not returned and nothing is runnable", bytes.len())),
        End::Finished => match spec::decode_output(&out) {
            Ok((recs, _)) => {
                if let Some(bad) = recs.iter().find(|r| matches!(r, spec::OutRec::Other { .. })) {
                    fail(c, "output-malformed", format!("unexpected record in the output: {bad:?}"));
                } else {
                    c.l.count("async_hostile_connections");
                    let n_inv = w.log.lock().unwrap().invocations.len();
                    c.l.add("async_hostile_handler_invocations", n_inv as u64);
                }
            }
            Err(m) => fail(c, "output-malformed", m),
        },
    }
}

pub fn run(ctx: &Ctx, evidence: Option<&PathBuf>) -> i32 {
    ctx.run_cases("async-hostile", ctx.size3(6_000, 600_000, 3), async_hostile);
    let sweep_n = match ctx.scale {
        Scale::Full => 1024,
        Scale::San => 256,
        Scale::Miri => 1,
    };
    ctx.run_fixed("header-sweep", sweep_n, header_sweep);
    let n = ctx.size3(25_000, 2_500_000, 3);
    let mutated = |c: &mut Case| {
        let (mut bytes, buffer) = valid_connection(&mut c.rng);
        let n_mut = c.rng.below(5);
        let mut kinds = Vec::new();
        for _ in 0..n_mut {
            kinds.push(mutate(&mut c.rng, &mut bytes));
        }
        if check_input(c, &bytes, buffer, "mutated-valid-traffic", 4) {
            for k in &kinds {
                c.l.count(&format!("mutation_{k}"));
            }
            c.l.sig(mix(hash_bytes(3, &bytes), buffer as u64));
        }
        if c.index == 1 {
            c.l.sample(Json::obj().with("mutations", kinds.iter().map(|k| Json::from(*k)).collect::<Vec<_>>()).with("buffer_size", buffer).with("input_len", bytes.len()).with("input_head_hex", hex_cap(&bytes, 64)));
        }
    };
    ctx.run_fixed("mutated-directed", if ctx.miri() { 2 } else { ctx.dn(300) }, mutated);
    ctx.run_cases("mutated", n, mutated);
    ctx.run_cases("random-bytes", ctx.size3(3_000, 300_000, 4), |c| {
        let mut bytes = c.rng.rbytes(400);
        // bias: plausible version byte so that the first header is not rejected at once
        if !bytes.is_empty() && c.rng.chance(3, 4) {
            bytes[0] = 1;
            if bytes.len() > 1 {
                bytes[1] = 1 + c.rng.below(12) as u8;
            }
            if bytes.len() > 5 {
                bytes[4] = 0;
                bytes[5] &= 0x1f;
            }
        }
        let buffer = *c.rng.pick(&[24usize, 100, 8192]);
        if check_input(c, &bytes, buffer, "random-bytes", 3) {
            c.l.sig(hash_bytes(4, &bytes));
        }
    });
    ctx.gate("headers_injected", if ctx.scale == Scale::Full { 60_000 } else { 100 });
    ctx.gate("calls_after_terminal_state", 1000);
    ctx.gate("interrupted_conversions", 50);
    ctx.gate("request_outcome_Ok", 100);
    ctx.gate("request_outcome_UnknownVersion", 50);
    ctx.gate("request_outcome_InvalidRequestLen", 5);
    ctx.gate("request_outcome_NullRequest", 5);
    ctx.gate("stream_outcome_AbortRequest", 20);
    ctx.gate("stream_outcome_UnknownVersion", 20);
    ctx.gate("async_hostile_connections", 500);
    ctx.finish(
        "exploration",
        "inputs: (a) valid generated connections (1-2 requests, management / stray records) with 0..4 structured mutations {version / type / length / padding / id byte, truncation, span duplication / deletion, length prefixes rewritten to 2^31-1 / 0x80000000, \
         BeginRequest with wrong length / id 0 / unknown role, bit flips, byte overwrites, inserted AbortRequest, inserted garbage}; (b) random bytes; (c) exhaustive header sweep: version {0,1,2,255} x all 256 types x id {0, own, other} x content length {0,1,7,8,9,255,65535} x padding {0,1,255} \
         (64 512 headers) injected at the record-boundary states of both parsers (before BeginRequest, between Params records with a straddling pair, before the final Params, between stream records, behind a terminator, before a management record). \
         Each input runs through 2-4 chunking families (the first is the canonical buffer-filling one) and random stream-parser schedules; catch_unwind around every call; a watchdog flags a single call > 20 s as a hang. \
         Oracle: no panic / hang; done==false => input_buffer non-empty; shadow-buffer bookkeeping after every action; conversions at non-final states return Interrupted; 4 further calls after any terminal result change nothing, repeat the same error and add no output; \
         outcome tuple (parsed request or error kind, env digest, leftover offset, bytes toward the client, stream error, and on success the delivered stream bytes + unread remainder) identical across all chunkings of the same input; on failure reported stream bytes are a prefix of the scanner's E(s). \
         distinct_nontrivial = distinct input digests (set). Additionally mutated connections run through Token::run (the async layer's own call pattern over both parsers): the task must return without panic / hang / spin and its output must be well-formed records. Re-run in a plain release build in the thorough tier (debug_assert / overflow checks off).",
        &["only invariance is asserted on malformed input; the model is not a specification of error choice", "stream-parser wedges (no buffer space for an oversized GetValues pair) are counted, the stream-phase comparison is skipped for them"],
        false,
        evidence,
    )
}
