//! C13 — never more live connection tokens than max_conns; freed slots wake waiters.

use std::future::Future;
use std::path::PathBuf;
use std::pin::Pin;
use std::sync::atomic::{AtomicUsize, Ordering};
use std::sync::Arc;
use std::task::{Context, Poll, Waker};

use fastcgi_server::async_io::{Runner, Token};

use crate::c02::config;
use crate::ev::{guarded, Case, Ctx, Scale};
use crate::exec::CountWaker;
use crate::json::Json;
use crate::rng::{mix, Rng};
use crate::threads::{self, FinishGuard, Group};
use crate::transport::{Behaviour, Pipe, Reader, Writer};

struct Pending<'r> {
    fut: Pin<Box<dyn Future<Output = Token> + 'r>>,
    waker: Arc<CountWaker>,
    /// wake count observed when the future was last polled
    seen: u64,
    runner: usize,
}

fn poll_pending(p: &mut Pending) -> Poll<Token> {
    p.seen = p.waker.count();
    let w = Waker::from(p.waker.clone());
    let mut cx = Context::from_waker(&w);
    p.fut.as_mut().poll(&mut cx)
}

/// Runs a token on a transport that is already at end-of-file: `Token::run` returns at once
/// and drops the token.
fn run_to_completion(t: Token) -> Result<(), String> {
    let pipe = Pipe::new(Rng::new(1), Behaviour::ideal());
    pipe.lock().unwrap_or_else(std::sync::PoisonError::into_inner).peer_close();
    let log = Arc::new(std::sync::Mutex::new(crate::handler::HLog::default()));
    let h = crate::handler::make_handler(vec![crate::handler::Script { ops: vec![], propagate: true, status: fastcgi_server::ExitStatus::SUCCESS }], log);
    let mut fut = Box::pin(t.run(Reader(pipe.clone()), Writer(pipe), h));
    let cw = CountWaker::new();
    let w = Waker::from(cw);
    let mut cx = Context::from_waker(&w);
    for _ in 0..4 {
        if fut.as_mut().poll(&mut cx).is_ready() {
            return Ok(());
        }
    }
    Err("Token::run on an EOF transport did not complete within 4 polls".into())
}

/// A `Token::run` future on a transport that stays open: the connection (and so the slot) is
/// in use until the peer closes and the future completes, or the future is dropped.
struct Running {
    fut: Pin<Box<dyn Future<Output = ()>>>,
    pipe: crate::transport::Shared,
    waker: Arc<CountWaker>,
}

/// Returns None if the run future completed at once (a token of a runner that was shut down
/// stops immediately — its slot is free again).
fn start_run(t: Token) -> Option<Running> {
    let pipe = Pipe::new(Rng::new(2), Behaviour::ideal());
    let log = Arc::new(std::sync::Mutex::new(crate::handler::HLog::default()));
    let h = crate::handler::make_handler(vec![crate::handler::Script { ops: vec![], propagate: true, status: fastcgi_server::ExitStatus::SUCCESS }], log);
    let fut: Pin<Box<dyn Future<Output = ()>>> = Box::pin(t.run(Reader(pipe.clone()), Writer(pipe.clone()), h));
    let mut r = Running { fut, pipe, waker: CountWaker::new() };
    if poll_running(&mut r) {
        return None;
    }
    Some(r) // suspended reading the first request
}

fn poll_running(r: &mut Running) -> bool {
    let w = Waker::from(r.waker.clone());
    let mut cx = Context::from_waker(&w);
    r.fut.as_mut().poll(&mut cx).is_ready()
}

fn history(c: &mut Case) {
    let limit = 1 + c.rng.below(5);
    let n_runners = 1 + c.rng.below(3);
    let base = config(64, limit).async_runner();
    let mut runners: Vec<Runner> = Vec::new();
    for i in 0..n_runners {
        let r = if i == 0 { base.clone() } else { runners[c.rng.below(runners.len())].clone() };
        runners.push(r);
    }
    drop(base);
    let runners = runners; // fixed from here on: futures borrow from it
    // one more clone that may be shut down in the middle of the history (its tokens stay alive);
    // requests on it are polled once and dropped if they have to wait, so nothing borrows it
    let mut victim: Option<Runner> = Some(runners[0].clone());
    let mut shutdown_futs = Vec::new();
    let mut pending: Vec<Pending> = Vec::new();
    let mut tokens: Vec<Token> = Vec::new();
    let mut running: Vec<Running> = Vec::new();
    let mut trace: Vec<String> = Vec::new();
    let n_ops = 10 + c.rng.below(60);
    let mut hist = 0u64;
    let fail = |c: &mut Case, sig: &str, msg: String, trace: &[String]| {
        c.violation(sig, Json::obj().with("limit", limit).with("runners", n_runners).with("problem", msg).with("history", trace.to_vec()));
    };
    for step in 0..n_ops {
        let op = c.rng.below(12);
        hist = mix(hist, op as u64);
        match op {
            10 if victim.is_some() => {
                let free_before = limit - (tokens.len() + running.len());
                let got = {
                    let v = victim.as_ref().expect("victim");
                    let mut f = Box::pin(v.get_token());
                    let w = Waker::from(CountWaker::new());
                    let mut cx = Context::from_waker(&w);
                    match f.as_mut().poll(&mut cx) {
                        Poll::Ready(t) => Some(t),
                        Poll::Pending => None,
                    }
                };
                trace.push(format!("get_token(clone that will be shut down) -> {}", if got.is_some() { "Ready" } else { "Pending, request dropped" }));
                if let Some(t) = got {
                    if free_before == 0 {
                        fail(c, "token-over-limit", format!("get_token completed with {} live tokens / running connections and limit {limit}", tokens.len() + running.len()), &trace);
                        return;
                    }
                    tokens.push(t);
                }
            }
            11 if victim.is_some() && c.rng.chance(1, 3) => {
                trace.push(format!("shutdown(clone) with {} live tokens in total", tokens.len() + running.len()));
                if let Some(v) = victim.take() {
                    shutdown_futs.push(v.shutdown());
                }
                c.l.count("runner_shutdowns_mid_history");
            }
            0..=2 => {
                // new request on some runner + first poll
                let ri = c.rng.below(runners.len());
                let fut: Pin<Box<dyn Future<Output = Token> + '_>> = Box::pin(runners[ri].get_token());
                let mut p = Pending { fut, waker: CountWaker::new(), seen: 0, runner: ri };
                let free_before = limit - (tokens.len() + running.len());
                let earlier_pending = !pending.is_empty();
                trace.push(format!("get_token(runner {ri}) [live {} pending {}]", tokens.len() + running.len(), pending.len()));
                match poll_pending(&mut p) {
                    Poll::Ready(t) => {
                        if free_before == 0 {
                            fail(c, "token-over-limit", format!("get_token completed with {} live tokens / running connections and limit {limit}", tokens.len() + running.len()), &trace);
                            return;
                        }
                        tokens.push(t);
                        c.l.count("immediate_acquisitions");
                    }
                    Poll::Pending => {
                        if free_before > 0 && !earlier_pending {
                            fail(c, "free-slot-not-granted", format!("get_token returned Pending on its first poll with {free_before} free slot(s) and no earlier request queued"), &trace);
                            return;
                        }
                        pending.push(p);
                        c.l.count("requests_that_had_to_wait");
                    }
                }
            }
            3 | 4 if !pending.is_empty() => {
                let i = c.rng.below(pending.len());
                let free = limit - (tokens.len() + running.len());
                trace.push(format!("poll(pending #{i}) [live {} free {free}]", tokens.len() + running.len()));
                if let Poll::Ready(t) = poll_pending(&mut pending[i]) {
                    if free == 0 {
                        fail(c, "token-over-limit", format!("a queued get_token completed with {} live tokens and limit {limit}", tokens.len()), &trace);
                        return;
                    }
                    tokens.push(t);
                    pending.remove(i);
                    c.l.count("queued_acquisitions");
                }
            }
            5 if !pending.is_empty() => {
                let i = c.rng.below(pending.len());
                let notified = pending[i].waker.count() > pending[i].seen;
                trace.push(format!("drop(pending #{i}){}", if notified { " [it had been woken]" } else { "" }));
                if notified {
                    c.l.count("cancellations_of_notified_waiters");
                }
                pending.remove(i);
                c.l.count("cancellations");
            }
            6 | 7 if !tokens.is_empty() => {
                let j = c.rng.below(tokens.len());
                trace.push(format!("drop(token #{j})"));
                drop(tokens.remove(j));
                c.l.count("token_drops");
            }
            8 if !tokens.is_empty() => {
                let j = c.rng.below(tokens.len());
                let t = tokens.remove(j);
                trace.push(format!("run(token #{j}) to completion"));
                match guarded(|| run_to_completion(t)) {
                    Ok(Ok(())) => c.l.count("tokens_run_to_completion"),
                    Ok(Err(m)) => {
                        fail(c, "run-did-not-complete", m, &trace);
                        return;
                    }
                    Err(p) => {
                        fail(c, &crate::ev::panic_signature(&p), p, &trace);
                        return;
                    }
                }
            }
            9 if !tokens.is_empty() && c.rng.chance(1, 2) => {
                // hand the token to Token::run on a connection that stays open
                let j = c.rng.below(tokens.len());
                let t = tokens.remove(j);
                trace.push(format!("run(token #{j}) on an open connection"));
                match guarded(|| start_run(t)) {
                    Ok(Some(r)) => running.push(r),
                    Ok(None) => {
                        trace.push("  (the run returned at once: the token's runner had been shut down)".into());
                        c.l.count("runs_stopped_at_once_after_shutdown");
                    }
                    Err(p) => {
                        fail(c, &crate::ev::panic_signature(&p), p, &trace);
                        return;
                    }
                }
                c.l.count("runs_started_on_open_connections");
            }
            9 if !running.is_empty() && c.rng.chance(1, 2) => {
                let k = c.rng.below(running.len());
                let mut r = running.remove(k);
                if c.rng.chance(1, 2) {
                    trace.push(format!("peer closes connection of run #{k}; run future polled to completion"));
                    r.pipe.lock().unwrap_or_else(std::sync::PoisonError::into_inner).peer_close();
                    let mut done = false;
                    for _ in 0..4 {
                        if poll_running(&mut r) {
                            done = true;
                            break;
                        }
                    }
                    if !done {
                        fail(c, "run-did-not-complete", "Token::run did not return after the peer closed the connection".into(), &trace);
                        return;
                    }
                    c.l.count("open_connection_runs_completed");
                } else {
                    trace.push(format!("drop(run future #{k})"));
                    drop(r);
                    c.l.count("open_connection_runs_dropped");
                }
            }
            9 if !tokens.is_empty() => {
                let j = c.rng.below(tokens.len());
                let t = tokens.remove(j);
                trace.push(format!("drop(token #{j}) during unwinding"));
                let _ = guarded(move || {
                    let _t = t;
                    panic!("unwinding with a live token");
                });
                c.l.count("token_drops_during_unwinding");
            }
            _ => continue,
        }
        // ---- invariant at every instant: a free slot with waiters => some waiter holds an unconsumed wake
        let free = limit - (tokens.len() + running.len());
        if free > 0 && !pending.is_empty() && !pending.iter().any(|p| p.waker.count() > p.seen) {
            fail(c, "free-slot-stranded", format!("after step {step}: {free} free slot(s), {} queued request(s), none of them has been woken", pending.len()), &trace);
            return;
        }
        c.l.evaluations += 1;
        // ---- quiescent point (sometimes): re-poll every woken future until no wake is outstanding
        if c.rng.chance(1, 3) {
            let mut rounds = 0;
            loop {
                rounds += 1;
                if rounds > 200 {
                    fail(c, "wake-storm", "re-polling woken futures does not reach a quiescent state".into(), &trace);
                    return;
                }
                let Some(i) = pending.iter().position(|p| p.waker.count() > p.seen) else { break };
                let free = limit - (tokens.len() + running.len());
                trace.push(format!("quiesce: poll(pending #{i}) [free {free}]"));
                if let Poll::Ready(t) = poll_pending(&mut pending[i]) {
                    if free == 0 {
                        fail(c, "token-over-limit", format!("a woken get_token completed with {} live tokens and limit {limit}", tokens.len()), &trace);
                        return;
                    }
                    tokens.push(t);
                    pending.remove(i);
                    c.l.count("wake_to_acquire_handoffs");
                }
            }
            let free = limit - (tokens.len() + running.len());
            if free > 0 && !pending.is_empty() {
                fail(c, "free-slot-stranded", format!("quiescent (no wake outstanding) with {free} free slot(s) and {} queued request(s)", pending.len()), &trace);
                return;
            }
            c.l.count("quiescent_points_checked");
        }
        c.l.max("max_live_tokens_observed", (tokens.len() + running.len()) as u64);
        if tokens.len() + running.len() == limit {
            c.l.count("steps_at_the_limit");
        }
    }
    if pending.iter().map(|p| p.runner).chain(std::iter::once(0)).any(|r| r > 0) {
        c.l.count("histories_with_requests_on_clones");
    }
    c.l.state(hist);
    c.l.sig(mix(hist, (limit as u64) << 8 | n_runners as u64));
    if c.index == 3 {
        c.l.sample(Json::obj().with("limit", limit).with("runners", n_runners).with("history", trace.iter().take(40).cloned().collect::<Vec<_>>()));
    }
}

/// Run B: real threads hammering one limit.
fn thread_stress(c: &mut Case, n_threads: usize, iters: usize) {
    let limit = *c.rng.pick(&[1usize, 1, 2, 3]);
    let base = config(64, limit).async_runner();
    let runners: Vec<Runner> = (0..n_threads).map(|i| if i % 2 == 0 { base.clone() } else { base.clone().clone() }).collect();
    drop(base);
    let live = Arc::new(AtomicUsize::new(0));
    let max_seen = Arc::new(AtomicUsize::new(0));
    let waited = Arc::new(AtomicUsize::new(0));
    let cancelled = Arc::new(AtomicUsize::new(0));
    let group = Group::new(n_threads);
    let seeds: Vec<u64> = (0..n_threads).map(|_| c.rng.next_u64()).collect();
    let over: Arc<std::sync::Mutex<Option<usize>>> = Arc::new(std::sync::Mutex::new(None));
    std::thread::scope(|sc| {
        for (k, r) in runners.iter().enumerate() {
            let (live, max_seen, waited, cancelled, group, over, seed) = (live.clone(), max_seen.clone(), waited.clone(), cancelled.clone(), group.clone(), over.clone(), seeds[k]);
            sc.spawn(move || {
                let _fin = FinishGuard(group.clone());
                let mut rng = Rng::new(seed);
                for _ in 0..iters {
                    if group.deadlocked.load(Ordering::SeqCst) {
                        return;
                    }
                    // sometimes: poll once and cancel
                    if rng.chance(1, 5) {
                        let mut f = Box::pin(r.get_token());
                        let cw = CountWaker::new();
                        let w = Waker::from(cw);
                        let mut cx = Context::from_waker(&w);
                        if let Poll::Ready(t) = f.as_mut().poll(&mut cx) {
                            drop(t);
                        } else {
                            cancelled.fetch_add(1, Ordering::Relaxed);
                        }
                        group.note_progress();
                        continue;
                    }
                    let mut first = true;
                    let fut = r.get_token();
                    let mut fut = Box::pin(fut);
                    let tok = threads::block_on(&group, std::future::poll_fn(|cx| {
                        let r = fut.as_mut().poll(cx);
                        if r.is_pending() && first {
                            waited.fetch_add(1, Ordering::Relaxed);
                        }
                        first = false;
                        r
                    }));
                    let Ok(tok) = tok else { return };
                    // observed count <= true count: bump after acquiring, decrement before dropping
                    let n = live.fetch_add(1, Ordering::SeqCst) + 1;
                    max_seen.fetch_max(n, Ordering::SeqCst);
                    if n > limit {
                        *over.lock().unwrap() = Some(n);
                    }
                    for _ in 0..rng.below(12) {
                        std::thread::yield_now();
                    }
                    live.fetch_sub(1, Ordering::SeqCst);
                    drop(tok);
                    group.note_progress();
                }
            });
        }
    });
    c.l.add("thread_iterations", (n_threads * iters) as u64);
    c.l.add("thread_acquisitions_that_waited", waited.load(Ordering::Relaxed) as u64);
    c.l.add("thread_cancellations", cancelled.load(Ordering::Relaxed) as u64);
    c.l.max("max_live_tokens_observed_threads", max_seen.load(Ordering::SeqCst) as u64);
    if let Some(n) = *over.lock().unwrap() {
        c.violation("threads:token-over-limit", Json::obj().with("limit", limit).with("observed_live", n).with("threads", n_threads));
        return;
    }
    if group.deadlocked.load(Ordering::SeqCst) {
        c.violation(
            "threads:stranded-slot",
            Json::obj().with("limit", limit).with("threads", n_threads).with("problem", "all threads parked waiting for a token while no token is held and no wake-up is outstanding"),
        );
        return;
    }
    c.l.count("thread_runs_completed");
    c.l.sig(mix(0x1313, c.index));
}

/// Hundreds of get_token calls on ONE runner instance (short random histories never get there):
/// with a free slot and nothing queued every call completes at its first poll, at every position of
/// the sequence; with the limit reached it is Pending and completes after the next drop.
fn long_sequence(c: &mut Case) {
    let limit = 1 + c.rng.below(4);
    let runner = config(64, limit).async_runner();
    let n = if c.ctx.miri() { 140 } else { 300 + c.rng.below(300) };
    let mut tokens: std::collections::VecDeque<Token> = std::collections::VecDeque::new();
    for i in 0..n {
        let cw = CountWaker::new();
        let w = Waker::from(cw.clone());
        let mut fut = Box::pin(runner.get_token());
        let first = fut.as_mut().poll(&mut Context::from_waker(&w));
        c.l.evaluations += 1;
        match first {
            Poll::Ready(t) => {
                if tokens.len() >= limit {
                    c.violation("token-over-limit", Json::obj().with("limit", limit).with("call", i).with("problem", "get_token completed although the limit was reached"));
                    return;
                }
                tokens.push_back(t);
            }
            Poll::Pending => {
                if tokens.len() < limit {
                    c.violation(
                        "not-immediate-with-free-slot",
                        Json::obj().with("limit", limit).with("call", i).with("live", tokens.len()).with("problem", format!("get_token call #{i} on this runner returned Pending at its first poll although a slot is free and no request is queued")),
                    );
                    return;
                }
                // the limit is reached: free a slot, the request must be woken and complete
                drop(tokens.pop_front());
                if cw.count() == 0 {
                    c.violation("free-slot-stranded", Json::obj().with("limit", limit).with("call", i).with("problem", "a token was dropped while one request was queued; the request was not woken"));
                    return;
                }
                match fut.as_mut().poll(&mut Context::from_waker(&w)) {
                    Poll::Ready(t) => tokens.push_back(t),
                    Poll::Pending => {
                        c.violation("free-slot-stranded", Json::obj().with("limit", limit).with("call", i).with("problem", "woken request is still Pending although a slot is free"));
                        return;
                    }
                }
                c.l.count("long_sequence_waits");
            }
        }
        // keep between 0 and limit tokens alive
        if c.rng.chance(1, 2) && !tokens.is_empty() {
            let k = c.rng.below(tokens.len());
            drop(tokens.remove(k));
        }
    }
    c.l.add("long_sequence_calls", n as u64);
    c.l.sig(mix(0x13d, c.index));
}

// ---- Run C: one poll racing two drops ---------------------------------------------------------

type TokFut = Pin<Box<dyn Future<Output = Token> + Send>>;

fn tok_req(r: &Arc<Runner>) -> TokFut {
    let r = r.clone();
    Box::pin(async move { r.get_token().await })
}

fn poll_tok(f: &mut TokFut, w: &Waker) -> Poll<Token> {
    f.as_mut().poll(&mut Context::from_waker(w))
}

#[derive(Default)]
struct RaceShared {
    gen: AtomicUsize,
    ready: AtomicUsize,
    done: AtomicUsize,
    fut: std::sync::Mutex<Option<(TokFut, Waker)>>,
    res: std::sync::Mutex<Option<Poll<Token>>>,
    tok: [std::sync::Mutex<Option<Token>>; 2],
    delay: [AtomicUsize; 3],
}

fn spin_wait(mut cond: impl FnMut() -> bool) {
    let mut n = 0u32;
    while !cond() {
        n += 1;
        if n % 1024 == 0 {
            std::thread::yield_now();
        } else {
            std::hint::spin_loop();
        }
    }
}

const RACE_STOP: usize = usize::MAX;

fn race_worker(id: usize, sh: Arc<RaceShared>) {
    let mut it = 0usize;
    loop {
        it += 1;
        spin_wait(|| sh.gen.load(Ordering::SeqCst) >= it);
        if sh.gen.load(Ordering::SeqCst) == RACE_STOP {
            return;
        }
        let d = sh.delay[id].load(Ordering::SeqCst);
        if id == 0 {
            let (mut f, w) = sh.fut.lock().unwrap().take().expect("racing request");
            sh.ready.fetch_add(1, Ordering::SeqCst);
            spin_wait(|| sh.ready.load(Ordering::SeqCst) >= 3 * it);
            for _ in 0..d {
                std::hint::spin_loop();
            }
            let r = poll_tok(&mut f, &w); // the one racing poll
            *sh.res.lock().unwrap() = Some(r);
            *sh.fut.lock().unwrap() = Some((f, w));
        } else {
            let t = sh.tok[id - 1].lock().unwrap().take().expect("token to drop");
            sh.ready.fetch_add(1, Ordering::SeqCst);
            spin_wait(|| sh.ready.load(Ordering::SeqCst) >= 3 * it);
            for _ in 0..d {
                std::hint::spin_loop();
            }
            drop(t); // the racing drop
        }
        sh.done.fetch_add(1, Ordering::SeqCst);
    }
}

/// Limit 2, both slots taken, three requests queued; one queued request has been woken and is
/// polled by one thread while two other threads each drop a token (released together by a spin
/// barrier, random skews). At the quiescent point afterwards at least one slot is free: then the
/// racing request must have got a token or been woken again, or one of the other queued requests
/// must have been woken — otherwise the freed slot is stranded. `barger`: the woken state arises
/// from a late get_token that took the freed slot first, else from the semaphore handing the
/// notification on when the first queued request completed.
fn poll_drop_race(c: &mut Case, barger: bool, rounds: usize) {
    let sh = Arc::new(RaceShared::default());
    let handles: Vec<_> = (0..3)
        .map(|id| {
            let sh = sh.clone();
            std::thread::spawn(move || race_worker(id, sh))
        })
        .collect();
    let w0 = Waker::from(CountWaker::new());
    let mut failure: Option<Json> = None;
    let mut raced_ready = 0u64;
    let mut raced_pending = 0u64;
    for it in 1..=rounds {
        let runner = Arc::new(config(64, 2).async_runner());
        let now = |f: &mut TokFut| match poll_tok(f, &w0) {
            Poll::Ready(t) => Some(t),
            Poll::Pending => None,
        };
        let (Some(x), Some(y)) = (now(&mut tok_req(&runner)), now(&mut tok_req(&runner))) else {
            failure = Some(Json::obj().with("problem", "get_token with a free slot and nothing queued was Pending").with("round", it));
            break;
        };
        let mut queued: Vec<(TokFut, Arc<CountWaker>, Waker)> = (0..3)
            .map(|_| {
                let c = CountWaker::new();
                (tok_req(&runner), c.clone(), Waker::from(c))
            })
            .collect();
        let mut setup_ok = true;
        for (f, _, w) in queued.iter_mut() {
            setup_ok &= poll_tok(f, w).is_pending();
        }
        drop(x); // slot free -> the first queued request is woken
        setup_ok &= queued[0].1.count() == 1;
        let (other, racer) = if barger {
            let t = now(&mut tok_req(&runner));
            (t, queued.remove(0))
        } else {
            let (mut f, _, w) = queued.remove(0);
            let t = match poll_tok(&mut f, &w) {
                Poll::Ready(t) => Some(t),
                Poll::Pending => None,
            };
            (t, queued.remove(0))
        };
        let Some(other) = other else {
            failure = Some(Json::obj().with("problem", "a freed slot could not be taken in the setup phase").with("round", it));
            break;
        };
        let (rf, rc, rw) = racer;
        // now: 0 free slots, live tokens {y, other}, `racer` woken but not yet polled (FIFO variant:
        // by the hand-on of the notification), the rest of `queued` pending and not woken
        setup_ok &= rc.count() >= 1 && queued.iter().all(|q| q.1.count() == 0);
        if !setup_ok {
            // (a different but legal notification pattern: nothing to judge in this round)
            c.l.count("race_rounds_with_other_setup");
            drop((rf, y, other, queued));
            continue;
        }
        let base = rc.count();
        *sh.fut.lock().unwrap() = Some((rf, rw));
        *sh.tok[0].lock().unwrap() = Some(y);
        *sh.tok[1].lock().unwrap() = Some(other);
        for d in &sh.delay {
            d.store(c.rng.below(40), Ordering::SeqCst);
        }
        sh.gen.store(it, Ordering::SeqCst); // go: poll(racer) || drop(y) || drop(other)
        spin_wait(|| sh.done.load(Ordering::SeqCst) >= 3 * it);
        // quiescent again: both tokens are gone, the racer was polled exactly once
        let r = sh.res.lock().unwrap().take().expect("race result");
        let (rf, _) = sh.fut.lock().unwrap().take().expect("racing request");
        c.l.evaluations += 1;
        let live = usize::from(r.is_ready());
        if r.is_ready() {
            raced_ready += 1;
        } else {
            raced_pending += 1;
        }
        let racer_woken = r.is_pending() && rc.count() > base;
        let others_woken = queued.iter().filter(|q| q.1.count() > 0).count();
        if !racer_woken && others_woken == 0 {
            // prove that the slot really is free: an un-woken request gets it when polled by hand
            let (f, _, w) = &mut queued[0];
            let got = poll_tok(f, w).is_ready();
            failure = Some(
                Json::obj()
                    .with("problem", format!("{} slot(s) free, {} request(s) pending, none of them holds a wake-up (the racing request {}; polling the first pending request by hand returns a token: {got})", 2 - live, queued.len() + usize::from(r.is_pending()), if r.is_ready() { "got a token" } else { "is still pending" }))
                    .with("round", it)
                    .with("limit", 2)
                    .with("variant", if barger { "late get_token took the freed slot first" } else { "FIFO only" }),
            );
        }
        drop((r, rf, queued));
        if failure.is_some() {
            break;
        }
    }
    sh.gen.store(RACE_STOP, Ordering::SeqCst);
    for h in handles {
        let _ = h.join();
    }
    c.l.add("poll_vs_two_drops_races", raced_ready + raced_pending);
    c.l.add("race_rounds_where_the_racing_request_got_a_token", raced_ready);
    c.l.add("race_rounds_where_the_racing_request_stayed_pending", raced_pending);
    if let Some(f) = failure {
        c.violation("threads:slot-stranded-after-poll-drop-race", f);
        return;
    }
    c.l.sig(mix(0x13c, c.index));
}

pub fn run(ctx: &Ctx, evidence: Option<&PathBuf>) -> i32 {
    ctx.run_fixed("directed", ctx.dn(500), history);
    let n = ctx.size(100_000, 10_000_000);
    ctx.run_cases("histories", n, history);
    ctx.run_cases("long-sequences", ctx.size3(200, 20_000, 1), long_sequence);
    let (runs, threads_n, iters) = match ctx.scale {
        Scale::Full => (ctx.size(12, 400), 12, 8_000),
        Scale::San => (8, 12, 4_000),
        Scale::Miri => (1, 3, 12),
    };
    ctx.run_cases_serial("threads", runs, |c| thread_stress(c, threads_n, iters));
    // Run C is timing-sensitive by nature (three spinning threads): serial, not under Miri
    if !ctx.miri() {
        let rounds = match ctx.scale {
            Scale::Full => ctx.size(12_000, 150_000),
            _ => 3_000,
        };
        ctx.run_cases_serial("poll-drop-race", 2, |c| poll_drop_race(c, c.index % 2 == 1, rounds as usize));
        ctx.gate("poll_vs_two_drops_races", 1000);
    }
    ctx.gate("requests_that_had_to_wait", 1000);
    ctx.gate("wake_to_acquire_handoffs", 500);
    ctx.gate("cancellations_of_notified_waiters", 100);
    ctx.gate("tokens_run_to_completion", 100);
    ctx.gate("runs_started_on_open_connections", 100);
    ctx.gate("runner_shutdowns_mid_history", 100);
    ctx.gate("open_connection_runs_completed", 50);
    ctx.gate("open_connection_runs_dropped", 50);
    ctx.gate("token_drops_during_unwinding", 100);
    ctx.gate("quiescent_points_checked", 1000);
    ctx.gate("steps_at_the_limit", 1000);
    ctx.gate("histories_with_requests_on_clones", 100);
    ctx.gate("thread_runs_completed", 1);
    ctx.gate("long_sequence_calls", 300);
    ctx.gate("thread_acquisitions_that_waited", 10);
    ctx.finish(
        "exploration",
        "Run A: limits 1..5, 1..3 runners (original + clones of clones), random histories of 10..70 operations: get_token on any runner (+ first poll), re-poll a queued request, drop a queued request (also one that has already been woken), drop a token, run a token to completion on an EOF transport, hand a token to Token::run on a connection that stays open (the slot stays taken until the peer closes and the future completes, or the future is dropped), drop a token during unwinding, take tokens through a further clone and shut that clone down mid-history (its tokens stay alive); every request has its own counting waker. \
         Oracle after EVERY operation: a get_token never completes while live == limit; a first poll with a free slot and no earlier request queued is Ready; free > 0 and queued != {} => some queued request holds an un-consumed wake; at sampled quiescent points (every woken future re-polled until no wake is outstanding): free == 0 or queue empty. \
         Run B: 12 threads x 8000 iterations on one limit (runner and clones), acquire / hold for a few yields / drop, sometimes poll-once-and-cancel; live counter bumped after acquiring and decremented before dropping (observed <= true), observed > limit = violation; quiescence detector (all threads parked, no wake outstanding) = stranded slot. \
         Run C: limit 2, both slots taken and three requests queued; one queued request that has been woken is polled by one thread while two other threads each drop a token (spin barrier, random skews; FIFO-only variant and late-get_token variant), repeated for thousands of rounds: at the quiescent point afterwards the racing request has a token or a fresh wake-up, or another queued request has been woken (else the freed slot is stranded; a manual poll confirms that it was free). \
         distinct_nontrivial = distinct (operation history, limit, #runners) (set).",
        &["thread interleavings are whatever the OS / TSan / Miri scheduler produces", "the semaphore's release is a non-additive notify(1): the invariant is checked on un-consumed wakes, not 'as many wakes as free slots'"],
        false,
        evidence,
    )
}
