//! C15 — the variable-length integer codec is a bijection on 0..2^31-1.
//! Exhaustive execution of the real codec against plain arithmetic.

use std::collections::HashSet;
use std::io::{self, Read};
use std::path::PathBuf;

use fastcgi_server::protocol::varint::VarInt;

use crate::ev::{Ctx, Scale};
use crate::json::Json;

const MAX: u32 = (1 << 31) - 1;

/// A reader that hands out at most `step` bytes per call (the generic `Read` contract allows it).
struct Dribble<'a> {
    data: &'a [u8],
    step: usize,
    calls: usize,
}
impl Read for Dribble<'_> {
    fn read(&mut self, buf: &mut [u8]) -> io::Result<usize> {
        self.calls += 1;
        let n = buf.len().min(self.step).min(self.data.len());
        buf[..n].copy_from_slice(&self.data[..n]);
        self.data = &self.data[n..];
        Ok(n)
    }
}

fn expect_encoding(v: u32) -> ([u8; 4], usize) {
    if v < 128 {
        ([v as u8, 0, 0, 0], 1)
    } else {
        ((v | 0x8000_0000).to_be_bytes(), 4)
    }
}

/// All checks for one representable value.
#[inline]
fn check_value(v: u32, dribble: bool) -> Result<(), String> {
    let vi = VarInt::try_from(v).map_err(|e| format!("try_from({v}) failed: {e}"))?;
    if u32::from(vi) != v {
        return Err(format!("u32::from(VarInt::try_from({v})) = {}", u32::from(vi)));
    }
    if v % 4099 == 0 && (vi.to_string() != v.to_string() || usize::try_from(vi).ok() != Some(v as usize)) {
        return Err(format!("Display / usize conversion of VarInt({v}) wrong"));
    }
    // encode into a sentinel-filled bounded buffer
    let mut buf = [0xEEu8; 8];
    let n = vi.write(&mut buf[..]).map_err(|e| format!("write({v}) failed: {e}"))?;
    let (exp, exp_n) = expect_encoding(v);
    if n != exp_n {
        return Err(format!("write({v}) returned {n}, expected {exp_n}"));
    }
    if buf[..n] != exp[..n] {
        return Err(format!("write({v}) produced {:02x?}, expected {:02x?}", &buf[..n], &exp[..n]));
    }
    if buf[n..].iter().any(|&b| b != 0xEE) {
        return Err(format!("write({v}) wrote beyond the {n} bytes it reported: {buf:02x?}"));
    }
    // decode: exactly the encoded bytes are consumed, the sentinel stays unread
    let mut cur: &[u8] = &buf[..=n];
    let back = VarInt::read(&mut cur).map_err(|e| format!("read(write({v})) failed: {e}"))?;
    if u32::from(back) != v {
        return Err(format!("read(write({v})) = {}", u32::from(back)));
    }
    if cur.len() != 1 || cur[0] != 0xEE {
        return Err(format!("read(write({v})) consumed {} bytes instead of {n}", n + 1 - cur.len()));
    }
    // every four-byte encoding (also the non-canonical ones for v < 128) decodes to its value
    let four = (v | 0x8000_0000).to_be_bytes();
    let mut cur: &[u8] = &four;
    match VarInt::read(&mut cur) {
        Ok(b) if u32::from(b) == v && cur.is_empty() => {}
        other => return Err(format!("read({four:02x?}) = {other:?} rest {}, expected {v}", cur.len())),
    }
    if dribble {
        // sinks that accept fewer bytes than the encoding needs: a bounded slice that is too short
        // must fail (never report a short success); a sink taking one byte per call must get all
        if n == 4 {
            let room = (v as usize) % 4; // 0..=3 bytes of room
            let mut small = [0xEEu8; 4];
            match vi.write(&mut small[..room]) {
                Err(_) => {}
                Ok(k) => return Err(format!("write({v}) into a {room}-byte slice returned Ok({k}) instead of an error")),
            }
        }
        struct OneByte(Vec<u8>);
        impl std::io::Write for OneByte {
            fn write(&mut self, b: &[u8]) -> io::Result<usize> {
                if b.is_empty() {
                    return Ok(0);
                }
                self.0.push(b[0]);
                Ok(1)
            }
            fn flush(&mut self) -> io::Result<()> {
                Ok(())
            }
        }
        let mut ob = OneByte(Vec::new());
        match vi.write(&mut ob) {
            Ok(k) if k == n && ob.0[..] == exp[..n] => {}
            other => return Err(format!("write({v}) into a one-byte-per-call sink returned {other:?} and wrote {:02x?}", ob.0)),
        }
        // the same through a reader that returns one byte per call
        let mut d = Dribble { data: &buf[..=n], step: 1, calls: 0 };
        match VarInt::read(&mut d) {
            Ok(b) if u32::from(b) == v && d.data.len() == 1 => {}
            other => {
                return Err(format!(
                    "read via 1-byte-per-call reader of {:02x?} = {other:?} (left {}), expected {v}",
                    &buf[..n],
                    d.data.len()
                ))
            }
        }
    }
    Ok(())
}

fn check_unrepresentable(v: u32) -> Result<(), String> {
    if VarInt::try_from(v).is_ok() {
        return Err(format!("VarInt::try_from({v}u32) succeeded for an out-of-range value"));
    }
    Ok(())
}

pub fn run(ctx: &Ctx, evidence: Option<&PathBuf>) -> i32 {
    let full = ctx.thorough() && ctx.scale == Scale::Full;
    let mut exhaustive = false;
    let distinct: u64;

    // ---- fixed small spaces (every run) -------------------------------------------------
    ctx.run_fixed("small-spaces", 1, |c| {
        // all 256 one-byte inputs
        for b in 0..=255u8 {
            let data = [b];
            let mut cur: &[u8] = &data;
            let r = VarInt::read(&mut cur);
            let ok = if b < 128 {
                matches!(&r, Ok(v) if u32::from(*v) == u32::from(b)) && cur.is_empty()
            } else {
                matches!(&r, Err(e) if e.kind() == io::ErrorKind::UnexpectedEof)
            };
            c.l.count("one_byte_inputs");
            if !ok {
                c.violation("one-byte-decode", Json::obj().with("input", format!("{b:#04x}")).with("got", format!("{r:?}")));
            }
        }
        // empty input
        let mut cur: &[u8] = &[];
        if !matches!(VarInt::read(&mut cur), Err(e) if e.kind() == io::ErrorKind::UnexpectedEof) {
            c.violation("empty-decode", Json::obj().with("input", ""));
        }
        // every long first byte x truncation to 1..3 bytes (tail bytes from a boundary alphabet)
        for first in 128..=255u8 {
            for len in 1..=3usize {
                for fill in [0x00u8, 0x7f, 0x80, 0xff] {
                    let data = [first, fill, fill];
                    let mut cur: &[u8] = &data[..len];
                    let r = VarInt::read(&mut cur);
                    c.l.count("truncations");
                    if !matches!(&r, Err(e) if e.kind() == io::ErrorKind::UnexpectedEof) {
                        c.violation(
                            "truncated-decode",
                            Json::obj().with("input", crate::json::hex(&data[..len])).with("got", format!("{r:?}")),
                        );
                    }
                    // also through the dribbling reader
                    let mut d = Dribble { data: &data[..len], step: 1, calls: 0 };
                    let r = VarInt::read(&mut d);
                    if !matches!(&r, Err(e) if e.kind() == io::ErrorKind::UnexpectedEof) {
                        c.violation(
                            "truncated-decode-dribble",
                            Json::obj().with("input", crate::json::hex(&data[..len])).with("got", format!("{r:?}")),
                        );
                    }
                }
            }
        }
        // From<u8>, From<u16> (exhaustive), usize conversions at the boundaries
        for b in 0..=255u8 {
            if u32::from(VarInt::from(b)) != u32::from(b) {
                c.violation("from-u8", Json::obj().with("v", b));
            }
        }
        for w in 0..=u16::MAX {
            let vi = VarInt::from(w);
            if u32::from(vi) != u32::from(w) || usize::try_from(vi).ok() != Some(usize::from(w)) {
                c.violation("from-u16", Json::obj().with("v", w));
            }
            c.l.count("u16_conversions");
        }
        let big: [usize; 10] = [
            0,
            127,
            128,
            MAX as usize - 1,
            MAX as usize,
            MAX as usize + 1,
            u32::MAX as usize,
            u32::MAX as usize + 1,
            usize::MAX - 1,
            usize::MAX,
        ];
        // every single high bit, alone and combined with in-range low bits (a conversion that goes
        // through a narrower or shifted intermediate loses some of them), plus random wide values
        let mut wide: Vec<usize> = big.to_vec();
        for bit in 31..usize::BITS {
            let hi = 1usize << bit;
            wide.extend([hi, hi + 1, hi + 127, hi + 128, hi + (MAX as usize), hi | (hi >> 1), hi.wrapping_sub(1)]);
        }
        for _ in 0..2000 {
            let hi = (c.rng.next_u64() as usize) & !(MAX as usize);
            wide.push(hi | (c.rng.u32() as usize & MAX as usize));
        }
        for &u in &wide {
            let r = VarInt::try_from(u);
            let want_ok = u <= MAX as usize;
            c.l.count("usize_conversions");
            match r {
                Ok(v) if want_ok && u32::from(v) as usize == u && usize::try_from(v).ok() == Some(u) => {}
                Err(_) if !want_ok => {}
                other => c.violation("from-usize", Json::obj().with("v", u).with("got", format!("{other:?}"))),
            }
        }
        // chain-split readers: the four bytes split across two sources at every position
        for v in [128u32, 300, 65535, 1 << 24, MAX] {
            let enc = (v | 0x8000_0000).to_be_bytes();
            for cut in 0..=4usize {
                let (a, b) = enc.split_at(cut);
                let mut r = a.chain(b);
                c.l.count("chain_split_reads");
                match VarInt::read(&mut r) {
                    Ok(x) if u32::from(x) == v => {}
                    other => c.violation(
                        "chain-split-read",
                        Json::obj().with("value", v).with("cut", cut).with("got", format!("{other:?}")),
                    ),
                }
            }
        }
        c.l.sample(Json::obj().with("space", "256 one-byte inputs, 128x3x4 truncations, all u8/u16, usize boundaries, chain splits"));
    });

    if full {
        // ---- all 2^31 values, all 2^32 u32 conversions ----------------------------------
        const CHUNK: u64 = 1 << 20;
        ctx.run_fixed("all-values", (1u64 << 31) / CHUNK, |c| {
            let lo = (c.index * CHUNK) as u32;
            let mut bad = 0;
            for v in lo..=(lo + (CHUNK as u32 - 1)) {
                if let Err(e) = check_value(v, true) {
                    bad += 1;
                    if bad <= 2 {
                        c.violation(classify(v), Json::obj().with("value", v).with("error", e));
                    }
                }
            }
            c.l.add("values_checked", CHUNK);
            c.l.evaluations += CHUNK;
            if c.index % 512 == 1 {
                c.l.sample(Json::obj().with("value", lo + 12345).with("encoding", crate::json::hex(&expect_encoding(lo + 12345).0)));
            }
        });
        ctx.run_fixed("all-u32-out-of-range", (1u64 << 31) / CHUNK, |c| {
            let lo = (1u64 << 31) + c.index * CHUNK;
            let mut bad = 0;
            for v in lo..lo + CHUNK {
                if let Err(e) = check_unrepresentable(v as u32) {
                    bad += 1;
                    if bad <= 2 {
                        c.violation("conversion-accepts-out-of-range", Json::obj().with("value", v).with("error", e));
                    }
                }
            }
            c.l.add("out_of_range_u32_checked", CHUNK);
            c.l.evaluations += CHUNK;
        });
        exhaustive = ctx.counter("values_checked") == 1 << 31 && ctx.counter("out_of_range_u32_checked") == 1 << 31;
        distinct = ctx.counter("values_checked") - 128; // measured: values >= 128 exercise the 4-byte arm
    } else {
        // ---- quick: disjoint structured sets + seeded random sample ---------------------
        let small: u64 = match ctx.scale {
            Scale::Full => 1 << 20,
            Scale::San => 1 << 16,
            Scale::Miri => 1 << 9,
        };
        let stride: u64 = match ctx.scale {
            Scale::Full => 127, // 2^31/127 ≈ 16.9 M values
            Scale::San => 127 * 64,
            Scale::Miri => 127 * 65536 * 4,
        };
        const CHUNK: u64 = 1 << 14;
        // A: all v < small
        ctx.run_fixed("small-values", small.div_ceil(CHUNK), |c| {
            let lo = c.index * CHUNK;
            for v in lo..(lo + CHUNK).min(small) {
                if let Err(e) = check_value(v as u32, true) {
                    c.violation(classify(v as u32), Json::obj().with("value", v).with("error", e));
                    break;
                }
                c.l.count("values_checked");
                c.l.evaluations += 1;
            }
        });
        // B: strided sweep over the rest of the range
        let n_strided = ((1u64 << 31) - small).div_ceil(stride);
        ctx.run_fixed("strided-values", n_strided.div_ceil(CHUNK), |c| {
            let lo = c.index * CHUNK;
            for k in lo..(lo + CHUNK).min(n_strided) {
                let v = small + k * stride;
                if let Err(e) = check_value(v as u32, true) {
                    c.violation(classify(v as u32), Json::obj().with("value", v).with("error", e));
                    break;
                }
                c.l.count("values_checked");
                c.l.evaluations += 1;
            }
            if c.index == 3 {
                let v = (small + lo * stride) as u32;
                c.l.sample(Json::obj().with("value", v).with("encoding", crate::json::hex(&expect_encoding(v).0)));
            }
        });
        // C: all values with <= 3 set bits (not already covered by A or B)
        ctx.run_fixed("sparse-values", 1, |c| {
            let bit_step = if ctx.scale == Scale::Miri { 6 } else { 1 };
            for a in (0..31u32).step_by(bit_step) {
                for b in (a..31).step_by(bit_step) {
                    for d in (b..31).step_by(bit_step) {
                        let v = (1u32 << a) | (1 << b) | (1 << d);
                        for v in [v, v.wrapping_sub(1) & MAX, (!v) & MAX] {
                            let vv = u64::from(v);
                            let covered = vv < small || (vv - small) % stride == 0;
                            if let Err(e) = check_value(v, true) {
                                c.violation(classify(v), Json::obj().with("value", v).with("error", e));
                                return;
                            }
                            c.l.evaluations += 1;
                            if !covered {
                                c.l.state(vv); // distinct set membership, counted below
                            }
                        }
                    }
                }
            }
            // out-of-range u32: boundaries and sparse patterns
            for a in (0..32u32).step_by(bit_step) {
                for b in (a..32).step_by(bit_step) {
                    let v = (1u32 << 31) | (1 << a) | (1 << b);
                    for v in [v, !(v & MAX), u32::MAX, 1 << 31] {
                        if v > MAX {
                            if let Err(e) = check_unrepresentable(v) {
                                c.violation("conversion-accepts-out-of-range", Json::obj().with("value", v).with("error", e));
                                return;
                            }
                            c.l.count("out_of_range_u32_checked");
                        }
                    }
                }
            }
        });
        // D: seeded random values
        let (n_chunks, per_chunk) = match ctx.scale {
            Scale::Full => ((1u64 << 20) / CHUNK, CHUNK),
            Scale::San => (8, CHUNK),
            Scale::Miri => (2, 100),
        };
        ctx.run_cases("random-values", n_chunks, |c| {
            for _ in 0..per_chunk {
                let v = c.rng.u32() & MAX;
                if let Err(e) = check_value(v, true) {
                    c.violation(classify(v), Json::obj().with("value", v).with("error", e));
                    break;
                }
                c.l.evaluations += 1;
                let vv = u64::from(v);
                if !(vv < small || (vv - small) % stride == 0) {
                    c.l.state(vv);
                }
                let hi = c.rng.u32() | (1 << 31);
                if let Err(e) = check_unrepresentable(hi) {
                    c.violation("conversion-accepts-out-of-range", Json::obj().with("value", hi).with("error", e));
                    break;
                }
                c.l.count("out_of_range_u32_checked");
            }
        });
        // distinct values: A and B are disjoint by construction and counted; C ∪ D deduplicated
        // in the `states` set (values in A/B excluded arithmetically).
        distinct = ctx.counter("values_checked") + distinct_states(ctx);
    }

    ctx.extra("distinct_nontrivial", distinct);
    ctx.extra("exhaustive", exhaustive);
    ctx.gate("one_byte_inputs", 256);
    ctx.gate("truncations", 128 * 3 * 4);
    ctx.finish(
        "exploration",
        "every value is run through try_from/into, write into a sentinel-filled bounded buffer (length, bytes, nothing beyond), \
         read of exactly those bytes + sentinel (value, bytes consumed), read of its 4-byte form, and read through a 1-byte-per-call reader; \
         thorough enumerates all 2^31 values and all 2^31 out-of-range u32 (exhaustive), quick enumerates all v<2^20, a stride-127 sweep, \
         all <=3-set-bit patterns (and complements) and 2^20 seeded random values; distinct_nontrivial counts distinct values checked \
         (disjoint ranges counted, the rest deduplicated in a set); small finite spaces (256 one-byte inputs, truncations, u8/u16/usize conversions) are always exhaustive",
        &["the model is plain integer arithmetic written in the harness", "usize is 64 bits on this target"],
        exhaustive,
        evidence,
    )
}

fn distinct_states(ctx: &Ctx) -> u64 {
    // `states` lives in the merged Local; expose through a counter trick: finish() reports it as
    // distinct_states_observed, here we need the number — peek via a scratch merge.
    let mut n = 0u64;
    ctx.peek(|l| n = l.states.len() as u64);
    n
}

fn classify(v: u32) -> &'static str {
    if v < 127 {
        "value-short"
    } else if v <= 129 {
        "value-at-128-boundary"
    } else if v >= MAX - 1 {
        "value-at-max"
    } else {
        "value-long"
    }
}

#[allow(dead_code)]
fn unused(_: HashSet<u8>) {}
