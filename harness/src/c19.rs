//! C19 — CGI variable names: equality, order, hash, interning agree and ignore ASCII case.

use std::borrow::{Borrow, Cow};
use std::cmp::Ordering;
use std::collections::hash_map::DefaultHasher;
use std::collections::{BTreeMap, HashMap};
use std::hash::{BuildHasherDefault, Hash, Hasher};
use std::path::PathBuf;

use fastcgi_server::cgi::{OwnedVarName, StaticVarName, VarName};

use crate::ev::{guarded, panic_signature, Case, Ctx, Scale};
use crate::json::Json;
use crate::rng::{mix, Rng};

/// Records the exact byte stream fed to the hasher (boundary-insensitive digest).
#[derive(Default)]
struct ByteRecorder {
    h: u64,
}
impl Hasher for ByteRecorder {
    fn write(&mut self, bytes: &[u8]) {
        for &b in bytes {
            self.h = (self.h ^ u64::from(b)).wrapping_mul(0x100_0000_01b3).rotate_left(5);
        }
    }
    fn finish(&self) -> u64 {
        self.h
    }
}
/// A hasher that is sensitive to how the bytes are split over `write` calls (like Fx/aHash-style
/// word-at-a-time hashers). `Hash` implementations of equal values must drive it identically.
#[derive(Default)]
struct BoundaryHasher {
    h: u64,
}
impl Hasher for BoundaryHasher {
    fn write(&mut self, bytes: &[u8]) {
        self.h = mix(self.h, bytes.len() as u64 ^ 0xb0da);
        for chunk in bytes.chunks(8) {
            let mut w = [0u8; 8];
            w[..chunk.len()].copy_from_slice(chunk);
            self.h = mix(self.h, u64::from_le_bytes(w));
        }
    }
    fn finish(&self) -> u64 {
        self.h
    }
}

fn hashes<T: Hash + ?Sized>(v: &T) -> [u64; 3] {
    let mut a = DefaultHasher::new();
    v.hash(&mut a);
    let mut b = ByteRecorder::default();
    v.hash(&mut b);
    let mut c = BoundaryHasher::default();
    v.hash(&mut c);
    [a.finish(), b.finish(), c.finish()]
}

struct Rep {
    how: &'static str,
    owned: OwnedVarName,
    normalising: bool,
    h: [u64; 3],
}

struct Entry {
    s: String,
    bh: [u64; 3],
    reps: Vec<Rep>,
}

fn build_entry(s: &str, interned: &HashMap<String, StaticVarName>) -> Result<Entry, String> {
    let mut reps: Vec<(&'static str, OwnedVarName, bool)> = vec![
        ("From<&str>", OwnedVarName::from(s), false),
        ("From<String>", OwnedVarName::from(s.to_string()), true),
        ("From<Box<str>>", OwnedVarName::from(s.to_string().into_boxed_str()), true),
        ("From<Cow::Borrowed>", OwnedVarName::from(Cow::Borrowed(s)), false),
        ("From<Cow::Owned>", OwnedVarName::from(Cow::<str>::Owned(s.to_string())), true),
        ("from_mut_str", OwnedVarName::from_mut_str(&mut s.to_string()), true),
        ("ToOwned", VarName::new(s).to_owned(), false),
        ("From<&VarName>", OwnedVarName::from(VarName::new(s)), false),
    ];
    if let Some(st) = interned.get(&s.to_ascii_uppercase()) {
        reps.push(("From<StaticVarName>", OwnedVarName::from(*st), true));
        reps.push(("Clone", OwnedVarName::from(*st).clone(), true));
    }
    let upper = s.to_ascii_uppercase();
    let mut out = Vec::new();
    for (how, owned, normalising) in reps {
        let text: &str = owned.as_ref();
        if normalising {
            if text != upper {
                return Err(format!("{how}({s:?}) reads back as {text:?}, expected the ASCII-uppercased {upper:?}"));
            }
        } else if !text.eq_ignore_ascii_case(s) {
            return Err(format!("{how}({s:?}) reads back as {text:?}, not equal to the input ignoring ASCII case"));
        }
        if owned.to_string() != text || format!("{}", VarName::new(s)) != s {
            return Err(format!("{how}({s:?}): Display disagrees with as_ref"));
        }
        let b: &VarName = owned.borrow();
        if <&str>::from(b) != text {
            return Err(format!("{how}({s:?}): Borrow<VarName> reads {:?}, as_ref reads {text:?}", <&str>::from(b)));
        }
        let h = hashes(&owned);
        if hashes(b) != h {
            return Err(format!("{how}({s:?}): hash of the owned value differs from hash of its borrowed form"));
        }
        out.push(Rep { how, owned, normalising, h });
    }
    // borrowed constructors agree
    let v1 = VarName::new(s);
    let st = s.to_string();
    let v2: &VarName = (&st).into();
    let v3: &VarName = s.into();
    if <&str>::from(v1) != s || <&str>::from(v2) != s || <&str>::from(v3) != s {
        return Err(format!("borrowed constructors alter the string {s:?}"));
    }
    Ok(Entry { s: s.to_string(), bh: hashes(v1), reps: out })
}

fn case_variants(s: &str, rng: &mut Rng) -> Vec<String> {
    let alt: String = s.chars().enumerate().map(|(i, ch)| if i % 2 == 0 { ch.to_ascii_lowercase() } else { ch.to_ascii_uppercase() }).collect();
    let rnd: String = s.chars().map(|ch| if rng.chance(1, 2) { ch.to_ascii_lowercase() } else { ch.to_ascii_uppercase() }).collect();
    vec![s.to_ascii_uppercase(), s.to_ascii_lowercase(), alt, rnd]
}

fn read_interned() -> Vec<String> {
    let src = std::fs::read_to_string("/repo/src/cgi/intern.rs").unwrap_or_default();
    let mut v = Vec::new();
    let mut inside = false;
    for line in src.lines() {
        let t = line.trim();
        if t.starts_with("pub enum StaticVarName") {
            inside = true;
            continue;
        }
        if inside {
            if t.starts_with('}') {
                break;
            }
            if let Some(name) = t.strip_suffix(',') {
                if !name.is_empty() && name.chars().all(|c| c.is_ascii_uppercase() || c.is_ascii_digit() || c == '_') {
                    v.push(name.to_string());
                }
            }
        }
    }
    v
}

fn check_pair(c: &mut Case, a: &Entry, b: &Entry) -> bool {
    let want_eq = a.s.eq_ignore_ascii_case(&b.s);
    let (va, vb) = (VarName::new(&a.s), VarName::new(&b.s));
    let fail = |c: &mut Case, sig: &str, msg: String| {
        c.violation(sig, Json::obj().with("a", a.s.clone()).with("b", b.s.clone()).with("problem", msg));
        false
    };
    let base = va.cmp(vb);
    c.l.evaluations += 1;
    if (va == vb) != want_eq {
        return fail(c, "borrowed-eq", format!("VarName == gives {}, eq_ignore_ascii_case gives {want_eq}", va == vb));
    }
    if (base == Ordering::Equal) != want_eq {
        return fail(c, "borrowed-cmp-vs-eq", format!("cmp = {base:?} but equality is {want_eq}"));
    }
    if vb.cmp(va) != base.reverse() {
        return fail(c, "borrowed-cmp-antisymmetry", format!("cmp(a,b) = {base:?}, cmp(b,a) = {:?}", vb.cmp(va)));
    }
    if va.partial_cmp(vb) != Some(base) {
        return fail(c, "borrowed-partial-cmp", "partial_cmp != Some(cmp)".into());
    }
    if want_eq && a.bh != b.bh {
        return fail(c, "borrowed-hash", format!("equal names hash differently (hashers [sip, bytes, boundary]): {:?} vs {:?}", a.bh, b.bh));
    }
    for ra in &a.reps {
        for rb in &b.reps {
            c.l.evaluations += 1;
            let combo = || format!("{} vs {}", ra.how, rb.how);
            if (ra.owned == rb.owned) != want_eq {
                return fail(c, "owned-eq", format!("{}: == gives {}, expected {want_eq}", combo(), ra.owned == rb.owned));
            }
            let o = ra.owned.cmp(&rb.owned);
            if o != base {
                return fail(c, "owned-cmp-representation-dependent", format!("{}: cmp = {o:?}, borrowed cmp = {base:?}", combo()));
            }
            if ra.owned.partial_cmp(&rb.owned) != Some(o) {
                return fail(c, "owned-partial-cmp", combo());
            }
            if want_eq && (ra.h != rb.h || ra.h != a.bh) {
                return fail(c, "owned-hash", format!("{}: equal names hash differently: {:?} vs {:?} (borrowed {:?})", combo(), ra.h, rb.h, a.bh));
            }
            // mixed borrowed/owned through Borrow
            let ba: &VarName = ra.owned.borrow();
            if (ba == vb) != want_eq || ba.cmp(vb) != base {
                return fail(c, "borrow-mixed", format!("{}: borrowed view of owned a vs borrowed b disagree", combo()));
            }
        }
    }
    true
}

pub fn run(ctx: &Ctx, evidence: Option<&PathBuf>) -> i32 {
    let interned_names = read_interned();
    let mut interned: HashMap<String, StaticVarName> = HashMap::new();
    let mut parse_fail = Vec::new();
    for n in &interned_names {
        match n.parse::<StaticVarName>() {
            Ok(s) => {
                interned.insert(n.clone(), s);
            }
            Err(_) => parse_fail.push(n.clone()),
        }
    }
    ctx.extra("interned_names_read_from_source", interned_names.len());

    // ---- build the string domain ---------------------------------------------------------------
    let mut rng = Rng::for_case(ctx.seed, "c19-domain", 0);
    let mut dom: Vec<String> = vec![String::new()];
    let take_interned = match ctx.scale {
        Scale::Full => interned_names.len(),
        Scale::San => 40,
        Scale::Miri => 2,
    };
    for n in interned_names.iter().take(take_interned) {
        dom.extend(case_variants(n, &mut rng));
    }
    // all strings of length <= 3 over a small alphabet incl. non-ASCII look-alikes
    let alpha = ["a", "A", "b", "_", "é", "\u{212A}", "ß"];
    let alpha_n = if ctx.scale == Scale::Miri { 3 } else { 7 };
    let mut small: Vec<String> = Vec::new();
    for x in &alpha[..alpha_n] {
        small.push((*x).to_string());
        for y in &alpha[..alpha_n] {
            small.push(format!("{x}{y}"));
            if ctx.scale != Scale::Miri {
                for z in &alpha[..alpha_n] {
                    small.push(format!("{x}{y}{z}"));
                }
            }
        }
    }
    dom.extend(small.iter().cloned());
    // lengths around the 16-byte hashing chunk: one-position, case-only, length-only, non-ASCII differences
    let lens: Vec<usize> = if ctx.scale == Scale::Miri { vec![16] } else { (14..=18).chain(30..=34).chain([47, 48, 49]).collect() };
    for &l in &lens {
        let base: String = (0..l).map(|i| (b'A' + (i % 26) as u8) as char).collect();
        dom.push(base.clone());
        dom.push(base.to_ascii_lowercase());
        dom.push(base[..l - 1].to_string());
        dom.push(format!("{base}Q"));
        for pos in [0, 7, 15.min(l - 1), 16.min(l - 1), l - 1] {
            let mut b = base.clone().into_bytes();
            b[pos] = b'0';
            dom.push(String::from_utf8(b).expect("ascii"));
            let mut b = base.clone().into_bytes();
            b[pos] = b[pos].to_ascii_lowercase();
            dom.push(String::from_utf8(b).expect("ascii"));
            let mut chars: Vec<char> = base.chars().collect();
            chars[pos] = 'é';
            dom.push(chars.iter().collect());
            chars[pos] = 'É';
            dom.push(chars.iter().collect());
        }
        dom.push(format!("{}\u{0}", &base[..l - 1]));
        dom.push(format!("{}\u{ff}", &base[..l - 1]));
    }
    for _ in 0..match ctx.scale { Scale::Full => 150, Scale::San => 10, Scale::Miri => 1 } {
        let l = rng.below(40);
        let s: String = (0..l).map(|_| (0x21 + rng.below(0x5e) as u8) as char).collect();
        dom.extend(case_variants(&s, &mut rng).into_iter().take(2));
    }
    // near neighbours of the interned names (a second spelling added to the intern table, a lookup
    // that matches on a prefix or ignores a token, would map one of these onto an interned name):
    // one `_`-separated token removed or doubled, `HTTP_` / `X_` added or removed, one char dropped
    if ctx.scale != Scale::Miri {
        for n in interned_names.iter() {
            let toks: Vec<&str> = n.split('_').collect();
            for i in 0..toks.len() {
                let mut t = toks.clone();
                t.remove(i);
                dom.push(t.join("_"));
                let mut t = toks.clone();
                t.insert(i, toks[i]);
                dom.push(t.join("_"));
            }
            dom.push(format!("HTTP_{n}"));
            dom.push(format!("X_{n}"));
            dom.push(format!("{n}_"));
            dom.push(format!("_{n}"));
            if let Some(r) = n.strip_prefix("HTTP_") {
                dom.push(r.to_string());
                dom.push(format!("HTTP_X_{r}"));
            }
            dom.push(n.replace('_', "-"));
            dom.push(n.replace('_', ""));
        }
    }
    // pairs that differ only in bit 5 of a NON-letter byte (a case fold done with a bit mask merges
    // them), and names that differ only by trailing NUL bytes (a zero-padded block comparison
    // cannot tell them apart)
    if ctx.scale != Scale::Miri {
        for (a, b) in [('[', '{'), ('@', '`'), ('_', '\u{7f}'), ('^', '~'), ('\\', '|'), (']', '}'), ('1', '\u{11}'), ('0', '\u{10}'), ('-', '\r'), (' ', '\0')] {
            for ctx_s in ["", "X_", "HTTP_ACCEPT"] {
                dom.push(format!("{ctx_s}{a}"));
                dom.push(format!("{ctx_s}{b}"));
                dom.push(format!("{ctx_s}{a}Y"));
                dom.push(format!("{ctx_s}{b}Y"));
            }
        }
        for base in ["X_TOKEN", "A", "ABCDEFGHIJKLMNO", "ABCDEFGHIJKLMNOP", "ABCDEFGHIJKLMNOPQ"] {
            dom.push(base.to_string());
            dom.push(format!("{base}\0"));
            dom.push(format!("{base}\0\0"));
            dom.push(format!("\0{base}"));
        }
    }
    dom.sort();
    dom.dedup();
    ctx.extra("domain_strings", dom.len());

    // ---- constructors / read-back for every string ---------------------------------------------------
    let mut entries: Vec<Entry> = Vec::new();
    let mut ctor_fail: Vec<String> = Vec::new();
    for s in &dom {
        match guarded(|| build_entry(s, &interned)) {
            Ok(Ok(e)) => entries.push(e),
            Ok(Err(m)) => ctor_fail.push(m),
            Err(p) => ctor_fail.push(format!("constructor panicked on {s:?}: {p}")),
        }
    }
    ctx.run_fixed("constructors", 1, |c| {
        c.l.evaluations += entries.iter().map(|e| e.reps.len() as u64).sum::<u64>();
        c.l.add("constructor_results", entries.iter().map(|e| e.reps.len() as u64).sum::<u64>());
        for m in ctor_fail.iter().take(4) {
            c.violation("constructor-readback", Json::obj().with("problem", m.clone()));
        }
        for n in &parse_fail {
            c.violation("interned-parse", Json::obj().with("problem", format!("interned name {n} does not parse back through FromStr")));
        }
        // interned names read back as their canonical spelling, parse back to the same variant
        for (n, st) in &interned {
            c.l.evaluations += 1;
            let o = OwnedVarName::from(*st);
            let b: &VarName = (*st).into();
            let sref: &str = st.as_ref();
            let stat: &'static str = (*st).into();
            if o.as_ref() as &str != n || <&str>::from(b) != n || sref != n || stat != n || st.to_string() != *n {
                c.violation("interned-readback", Json::obj().with("name", n.clone()).with("owned", o.to_string()));
            }
            if n.parse::<StaticVarName>().ok() != Some(*st) {
                c.violation("interned-parse", Json::obj().with("name", n.clone()));
            }
            // StaticVarName's own order is the order of the names
            for (m, st2) in interned.iter().take(12) {
                if st.cmp(st2) != n.cmp(m) || st.partial_cmp(st2) != Some(n.cmp(m)) || (st == st2) != (n == m) {
                    c.violation("static-order", Json::obj().with("a", n.clone()).with("b", m.clone()));
                }
            }
            c.l.count("interned_names_checked");
        }
        c.l.sample(Json::obj().with("constructors_per_string", entries.first().map(|e| e.reps.iter().map(|r| r.how).collect::<Vec<_>>())));
    });

    // ---- all pairs ------------------------------------------------------------------------------------------
    let n = entries.len() as u64;
    ctx.run_fixed("pairs", n, |c| {
        let a = &entries[c.index as usize];
        for (j, b) in entries.iter().enumerate() {
            if !check_pair(c, a, b) {
                return;
            }
            c.l.count("pairs_checked");
            let close = a.s != b.s && (a.s.eq_ignore_ascii_case(&b.s) || a.s.len().abs_diff(b.s.len()) <= 1);
            if close {
                c.l.sig(c.index << 32 | j as u64);
                if a.s.eq_ignore_ascii_case(&b.s) {
                    c.l.count("case_variant_pairs");
                }
            }
        }
        if c.index == n / 2 {
            c.l.sample(Json::obj().with("string", a.s.clone()).with("compared_against", n).with("representations", a.reps.len()));
        }
    });

    // ---- transitivity on triples -----------------------------------------------------------------------------
    let small_idx: Vec<usize> = entries.iter().enumerate().filter(|(_, e)| e.s.chars().count() <= 2).map(|(i, _)| i).collect();
    ctx.run_fixed("triples-small", small_idx.len() as u64, |c| {
        let a = &entries[small_idx[c.index as usize]];
        for &j in &small_idx {
            for &k in &small_idx {
                let (b, d) = (&entries[j], &entries[k]);
                c.l.evaluations += 1;
                let (x, y, z) = (VarName::new(&a.s), VarName::new(&b.s), VarName::new(&d.s));
                if x.cmp(y) != Ordering::Greater && y.cmp(z) != Ordering::Greater && x.cmp(z) == Ordering::Greater {
                    c.violation("cmp-not-transitive", Json::obj().with("a", a.s.clone()).with("b", b.s.clone()).with("c", d.s.clone()));
                    return;
                }
            }
        }
        c.l.add("triples_checked", (small_idx.len() * small_idx.len()) as u64);
    });
    let nt = ctx.size3(2_000, 100_000, 1);
    ctx.run_cases("triples-random", nt, |c| {
        for _ in 0..500 {
            let (a, b, d) = (c.rng.pick(&entries), c.rng.pick(&entries), c.rng.pick(&entries));
            // bias toward related strings: neighbours in the sorted domain
            c.l.evaluations += 1;
            let reps = [&a.reps[c.rng.below(a.reps.len())].owned, &b.reps[c.rng.below(b.reps.len())].owned, &d.reps[c.rng.below(d.reps.len())].owned];
            if reps[0].cmp(reps[1]) != Ordering::Greater && reps[1].cmp(reps[2]) != Ordering::Greater && reps[0].cmp(reps[2]) == Ordering::Greater {
                c.violation("cmp-not-transitive", Json::obj().with("a", a.s.clone()).with("b", b.s.clone()).with("c", d.s.clone()));
                return;
            }
            c.l.count("triples_checked");
        }
    });

    // ---- sorting + map lookups by any spelling -----------------------------------------------------------------
    ctx.run_cases("maps", ctx.size3(40, 400, 1), |c| {
        // one key per equivalence class
        let mut classes: BTreeMap<String, Vec<&Entry>> = BTreeMap::new();
        for e in &entries {
            if c.rng.chance(1, 2) {
                classes.entry(e.s.to_ascii_uppercase()).or_default().push(e);
            }
        }
        let mut hm: HashMap<OwnedVarName, usize> = HashMap::new();
        let mut hb: HashMap<OwnedVarName, usize, BuildHasherDefault<BoundaryHasher>> = HashMap::default();
        let mut bm: BTreeMap<OwnedVarName, usize> = BTreeMap::new();
        for (i, (_, members)) in classes.iter().enumerate() {
            let e = *c.rng.pick(members);
            let rep = &e.reps[c.rng.below(e.reps.len())];
            let dup = hm.insert(rep.owned.clone(), i).is_some() | hb.insert(rep.owned.clone(), i).is_some() | bm.insert(rep.owned.clone(), i).is_some();
            if dup {
                c.violation("map-insert-collides", Json::obj().with("key", e.s.clone()));
                return;
            }
        }
        if hm.len() != classes.len() || bm.len() != classes.len() {
            c.violation("map-size", Json::obj().with("classes", classes.len()).with("hashmap", hm.len()).with("btreemap", bm.len()));
            return;
        }
        for (i, (upper, members)) in classes.iter().enumerate() {
            for e in members {
                c.l.evaluations += 1;
                let key = VarName::new(&e.s);
                let (g1, g2, g3) = (hm.get(key).copied(), hb.get(key).copied(), bm.get(key).copied());
                if g1 != Some(i) || g2 != Some(i) || g3 != Some(i) {
                    c.violation(
                        "map-lookup-miss",
                        Json::obj().with("stored_class", upper.clone()).with("lookup_spelling", e.s.clone()).with("hashmap_sip", format!("{g1:?}")).with("hashmap_boundary", format!("{g2:?}")).with("btreemap", format!("{g3:?}")),
                    );
                    return;
                }
                c.l.count("map_lookups");
            }
        }
        // iteration order of the BTreeMap is sorted consistently with cmp
        let keys: Vec<&OwnedVarName> = bm.keys().collect();
        for w in keys.windows(2) {
            if w[0].cmp(w[1]) != Ordering::Less {
                c.violation("btreemap-order", Json::obj().with("a", w[0].to_string()).with("b", w[1].to_string()));
                return;
            }
        }
        c.l.sig(0x3a90 ^ c.index);
    });

    // ---- HTTP header names ----------------------------------------------------------------------------------------
    ctx.run_cases("header-names", ctx.size3(4_000, 200_000, 12), |c| {
        let std_names = ["accept", "user-agent", "x-forwarded-for", "content-length", "sec-ch-ua-full-version-list", "x-request-id", "dnt", "cookie", "a", "-", "_", "x_y-z"];
        let raw: Vec<u8> = if c.index < std_names.len() as u64 {
            std_names[c.index as usize].as_bytes().to_vec()
        } else {
            let toks = b"abcdefghijklmnopqrstuvwxyzABCDEFGHIJKLMNOPQRSTUVWXYZ0123456789---__!#$%&'*+.^`|~";
            let l = 1 + c.rng.below(40);
            (0..l).map(|_| *c.rng.pick(toks)).collect()
        };
        let Ok(hn) = http::header::HeaderName::from_bytes(&raw) else {
            return;
        };
        let expect = format!("HTTP_{}", hn.as_str().to_ascii_uppercase().replace('-', "_"));
        c.l.evaluations += 1;
        match guarded(|| OwnedVarName::from(&hn)) {
            Ok(o) => {
                if o.as_ref() as &str != expect {
                    c.violation("header-name-mapping", Json::obj().with("header", hn.as_str()).with("got", o.to_string()).with("expected", expect.clone()));
                    return;
                }
                let lower = expect.to_ascii_lowercase();
                if o != OwnedVarName::from(lower.as_str()) || hashes(&o) != hashes(VarName::new(&lower)) {
                    c.violation("header-name-eq", Json::obj().with("header", hn.as_str()).with("expected", expect));
                    return;
                }
                c.l.count("header_names");
                c.l.sig(crate::rng::hash_str(&expect));
            }
            Err(p) => c.violation(panic_signature(&p), Json::obj().with("header", hn.as_str()).with("panic", p)),
        }
    });

    ctx.gate("pairs_checked", 1000);
    ctx.gate("case_variant_pairs", 100);
    ctx.gate("map_lookups", 100);
    if ctx.scale == Scale::Full {
        ctx.gate("interned_names_checked", 100);
    }
    ctx.finish(
        "exploration",
        "domain: every interned name (read from /repo/src/cgi/intern.rs at run time) in upper/lower/alternating/random case; all strings of length <=3 over {a,A,b,_,é,K(U+212A),ß}; \
         ASCII strings of length 14..18, 30..34, 47..49 with one-position / case-only / length-only / one-non-ASCII-character differences; seeded random printable strings; the empty string. \
         Every string through all constructors (From<&str>, String, Box<str>, Cow both arms, from_mut_str, ToOwned, From<&VarName>, From<StaticVarName>, borrowed From<&T>) with read-back checks; \
         ALL ordered pairs of the domain x all representation combinations: == <=> eq_ignore_ascii_case, cmp Equal <=> ==, antisymmetry, partial_cmp, cmp independent of representation, \
         equal => identical hash under SipHash, a byte-recording hasher and a write-boundary-sensitive hasher, owned hash == borrowed hash; transitivity on all small triples + random triples; \
         HashMap (two hashers) / BTreeMap lookups by every spelling; HeaderName -> HTTP_ + upper + '-'->'_'. Only the LAWS of the order are asserted, not a particular order. \
         distinct_nontrivial = distinct ordered pairs of different strings that are equal ignoring case or differ in length by <=1 (set).",
        &["model = str::eq_ignore_ascii_case / to_ascii_uppercase from std", "Request::get_var lookups by spelling are exercised by the C01 check"],
        false,
        evidence,
    )
}
