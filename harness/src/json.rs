//! Minimal JSON value + serializer (no external crates are needed for the evidence files).

use std::collections::BTreeMap;
use std::fmt::Write;

#[derive(Clone, Debug, PartialEq)]
pub enum Json {
    Null,
    Bool(bool),
    Int(i128),
    Num(f64),
    Str(String),
    Arr(Vec<Json>),
    Obj(BTreeMap<String, Json>),
}

impl Json {
    pub fn obj() -> Self {
        Json::Obj(BTreeMap::new())
    }
    pub fn set(&mut self, k: &str, v: impl Into<Json>) -> &mut Self {
        if let Json::Obj(m) = self {
            m.insert(k.to_string(), v.into());
        }
        self
    }
    pub fn with(mut self, k: &str, v: impl Into<Json>) -> Self {
        self.set(k, v);
        self
    }
    pub fn render(&self) -> String {
        let mut s = String::new();
        self.write(&mut s, 0);
        s
    }
    fn write(&self, out: &mut String, ind: usize) {
        match self {
            Json::Null => out.push_str("null"),
            Json::Bool(b) => out.push_str(if *b { "true" } else { "false" }),
            Json::Int(i) => {
                let _ = write!(out, "{i}");
            }
            Json::Num(f) => {
                if f.is_finite() {
                    let _ = write!(out, "{f:.3}");
                } else {
                    out.push_str("null");
                }
            }
            Json::Str(s) => write_str(out, s),
            Json::Arr(a) => {
                if a.is_empty() {
                    out.push_str("[]");
                    return;
                }
                let simple = a.iter().all(|x| !matches!(x, Json::Arr(_) | Json::Obj(_)));
                out.push('[');
                for (i, x) in a.iter().enumerate() {
                    if i > 0 {
                        out.push(',');
                    }
                    if !simple {
                        out.push('\n');
                        pad(out, ind + 1);
                    } else if i > 0 {
                        out.push(' ');
                    }
                    x.write(out, ind + 1);
                }
                if !simple {
                    out.push('\n');
                    pad(out, ind);
                }
                out.push(']');
            }
            Json::Obj(m) => {
                if m.is_empty() {
                    out.push_str("{}");
                    return;
                }
                out.push('{');
                for (i, (k, v)) in m.iter().enumerate() {
                    if i > 0 {
                        out.push(',');
                    }
                    out.push('\n');
                    pad(out, ind + 1);
                    write_str(out, k);
                    out.push_str(": ");
                    v.write(out, ind + 1);
                }
                out.push('\n');
                pad(out, ind);
                out.push('}');
            }
        }
    }
}

fn pad(out: &mut String, n: usize) {
    for _ in 0..n {
        out.push(' ');
    }
}

fn write_str(out: &mut String, s: &str) {
    out.push('"');
    for c in s.chars() {
        match c {
            '"' => out.push_str("\\\""),
            '\\' => out.push_str("\\\\"),
            '\n' => out.push_str("\\n"),
            '\r' => out.push_str("\\r"),
            '\t' => out.push_str("\\t"),
            c if (c as u32) < 0x20 => {
                let _ = write!(out, "\\u{:04x}", c as u32);
            }
            c => out.push(c),
        }
    }
    out.push('"');
}

impl From<bool> for Json {
    fn from(v: bool) -> Self {
        Json::Bool(v)
    }
}
impl From<&str> for Json {
    fn from(v: &str) -> Self {
        Json::Str(v.to_string())
    }
}
impl From<String> for Json {
    fn from(v: String) -> Self {
        Json::Str(v)
    }
}
impl From<f64> for Json {
    fn from(v: f64) -> Self {
        Json::Num(v)
    }
}
macro_rules! from_int {
    ($($t:ty),*) => {$(impl From<$t> for Json { fn from(v: $t) -> Self { Json::Int(v as i128) } })*};
}
from_int!(u8, u16, u32, u64, usize, i32, i64, i128);
impl<T: Into<Json>> From<Vec<T>> for Json {
    fn from(v: Vec<T>) -> Self {
        Json::Arr(v.into_iter().map(Into::into).collect())
    }
}
impl<T: Into<Json>> From<Option<T>> for Json {
    fn from(v: Option<T>) -> Self {
        v.map_or(Json::Null, Into::into)
    }
}

/// Hex rendering of (possibly long) byte strings for samples and replays.
pub fn hex(b: &[u8]) -> String {
    let mut s = String::with_capacity(b.len() * 2);
    for x in b {
        let _ = write!(s, "{x:02x}");
    }
    s
}

/// Hex rendering capped to `max` bytes, with the total length noted.
pub fn hex_cap(b: &[u8], max: usize) -> String {
    if b.len() <= max {
        hex(b)
    } else {
        format!("{}..(+{} bytes, {} total)", hex(&b[..max]), b.len() - max, b.len())
    }
}

pub fn unhex(s: &str) -> Option<Vec<u8>> {
    let s = s.trim();
    if s.len() % 2 != 0 {
        return None;
    }
    (0..s.len()).step_by(2).map(|i| u8::from_str_radix(&s[i..i + 2], 16).ok()).collect()
}
