//! Executable reference model of server-side FastCGI semantics, written from the FastCGI 1.0
//! specification and the property statements. It works on a complete byte string with a plain
//! record scanner (no resumption, no buffers) and shares no code with the crate under test.

use std::collections::{BTreeMap, BTreeSet};

use crate::wire::{self, Rec};

#[derive(Clone, Debug, PartialEq, Eq)]
pub enum Reply {
    /// GetValuesResult listing exactly these (recognised) names. For a GetValues record whose
    /// body is empty `empty_body` is set: the oracle then accepts no reply or one empty result.
    Values { names: BTreeSet<String>, empty_body: bool },
    /// UnknownType reply. The echoed request id is not fixed by the properties.
    Unknown { rtype: u8, id: u16 },
    /// EndRequest with the given protocol status (application status not fixed).
    End { id: u16, status: u8 },
    /// EndRequest for a foreign BeginRequest with an unknown role while a request is active:
    /// CantMpxConn or UnknownRole are both defensible.
    EndMpxOrRole { id: u16 },
}

#[derive(Clone, Debug)]
pub struct ModelReply {
    pub reply: Reply,
    /// offset of the record that elicits the reply, and the offset one past it
    pub src_off: usize,
    pub src_end: usize,
}

#[derive(Clone, Debug, PartialEq, Eq)]
pub enum Fatal {
    UnknownVersion(u8),
    InvalidRequestLen(u16),
    NullRequest,
}

#[derive(Clone, Debug)]
pub struct ReqInfo {
    pub id: u16,
    pub role: u16,
    pub flags: u8,
    /// last-value-wins map keyed by ASCII-uppercased, lossily decoded name
    pub env: BTreeMap<String, Vec<u8>>,
    /// offset of the BeginRequest record that started this request
    pub begin_off: usize,
    /// offset one past the padding of the final (empty) Params record
    pub end_off: usize,
}

#[derive(Clone, Debug)]
pub enum PreOutcome {
    Done(ReqInfo),
    Incomplete,
    Fatal { kind: Fatal, at: usize },
}

#[derive(Clone, Debug)]
pub struct PreModel {
    pub outcome: PreOutcome,
    pub replies: Vec<ModelReply>,
    /// requests aborted during Params before the one that completed
    pub aborted: Vec<u16>,
}

pub fn env_key(name: &[u8]) -> String {
    String::from_utf8_lossy(name).to_ascii_uppercase()
}

pub fn values_reply(body: &[u8]) -> Reply {
    let (pairs, _) = wire::decode_nv(body);
    let mut names = BTreeSet::new();
    for (n, _) in pairs {
        if let Ok(s) = std::str::from_utf8(&n) {
            if wire::KNOWN_VARS.contains(&s) {
                names.insert(s.to_string());
            }
        }
    }
    Reply::Values { names, empty_body: body.is_empty() }
}

fn role_known(role: u16) -> bool {
    (1..=3).contains(&role)
}

/// Interprets `bytes[start..]` the way a server that is waiting for / reading a request
/// preamble must: management and unknown records are answered, other stray records skipped.
pub fn model_preamble(bytes: &[u8], start: usize) -> PreModel {
    let (recs, _tail) = wire::scan(&bytes[start..]);
    let recs: Vec<Rec> = recs.into_iter().map(|r| shift(r, start)).collect();
    let mut replies = Vec::new();
    let mut aborted = Vec::new();
    // active request: (id, role, flags, params payload, begin offset)
    let mut cur: Option<(u16, u16, u8, Vec<u8>, usize)> = None;

    for r in &recs {
        if r.version != 1 {
            return PreModel { outcome: PreOutcome::Fatal { kind: Fatal::UnknownVersion(r.version), at: r.off }, replies, aborted };
        }
        if !wire::known_type(r.rtype) {
            replies.push(ModelReply { reply: Reply::Unknown { rtype: r.rtype, id: r.id }, src_off: r.off, src_end: r.end });
            continue;
        }
        if r.rtype == wire::GETVALUES && r.id == 0 {
            replies.push(ModelReply { reply: values_reply(r.body(bytes)), src_off: r.off, src_end: r.end });
            continue;
        }
        match &mut cur {
            None => {
                if r.rtype == wire::BEGIN {
                    if r.len() != 8 {
                        return PreModel {
                            outcome: PreOutcome::Fatal { kind: Fatal::InvalidRequestLen(r.len() as u16), at: r.off },
                            replies,
                            aborted,
                        };
                    }
                    let b = r.body(bytes);
                    let role = u16::from_be_bytes([b[0], b[1]]);
                    if !role_known(role) {
                        replies.push(ModelReply {
                            reply: Reply::End { id: r.id, status: wire::ST_UNKNOWN_ROLE },
                            src_off: r.off,
                            src_end: r.end,
                        });
                        continue;
                    }
                    if r.id == 0 {
                        return PreModel { outcome: PreOutcome::Fatal { kind: Fatal::NullRequest, at: r.off }, replies, aborted };
                    }
                    cur = Some((r.id, role, b[2], Vec::new(), r.off));
                }
                // anything else: stray record, skipped silently
            }
            Some((id, role, flags, payload, begin_off)) => {
                if r.rtype == wire::PARAMS && r.id == *id {
                    if r.len() == 0 {
                        let (pairs, _) = wire::decode_nv(payload);
                        let mut env = BTreeMap::new();
                        for (n, v) in pairs {
                            env.insert(env_key(&n), v);
                        }
                        let info = ReqInfo { id: *id, role: *role, flags: *flags, env, begin_off: *begin_off, end_off: r.end };
                        return PreModel { outcome: PreOutcome::Done(info), replies, aborted };
                    }
                    payload.extend_from_slice(r.body(bytes));
                } else if r.rtype == wire::ABORT && r.id == *id {
                    replies.push(ModelReply {
                        reply: Reply::End { id: *id, status: wire::ST_COMPLETE },
                        src_off: r.off,
                        src_end: r.end,
                    });
                    aborted.push(*id);
                    cur = None;
                } else if r.rtype == wire::BEGIN && r.id != *id {
                    let b = r.body(bytes);
                    let unknown_role = b.len() >= 2 && !role_known(u16::from_be_bytes([b[0], b[1]]));
                    let reply = if unknown_role && b.len() == 8 {
                        Reply::EndMpxOrRole { id: r.id }
                    } else {
                        Reply::End { id: r.id, status: wire::ST_CANT_MPX }
                    };
                    replies.push(ModelReply { reply, src_off: r.off, src_end: r.end });
                }
                // anything else skipped silently
            }
        }
    }
    PreModel { outcome: PreOutcome::Incomplete, replies, aborted }
}

fn shift(mut r: Rec, by: usize) -> Rec {
    r.off += by;
    r.content = (r.content.start + by)..(r.content.end + by);
    r.end += by;
    r
}

#[derive(Clone, Debug)]
pub struct StreamInfo {
    pub rtype: u8,
    /// E(s): the concatenated payloads of the stream's records up to its terminator
    pub content: Vec<u8>,
    /// offset of the terminating record's header (None: no terminator in the input)
    pub term_off: Option<usize>,
    /// true if the terminator is the stream's own empty record, false if it is the first
    /// record of a later stream
    pub term_own: bool,
    /// for every payload byte, nothing; but we keep the (record offset, payload range) list
    pub segments: Vec<(usize, std::ops::Range<usize>)>,
}

#[derive(Clone, Debug)]
pub struct StreamModel {
    pub streams: Vec<StreamInfo>,
    /// replies owed for records in the stream phase, in arrival order
    pub replies: Vec<ModelReply>,
    /// offset of the first AbortRequest for the active id, if any (nothing after it is interpreted)
    pub abort_off: Option<usize>,
    /// offset where the complete records end
    pub scanned_to: usize,
}

/// Interprets the records following a request preamble (from `start`) for request `id` / `role`.
/// `E(s)` for each input stream of the role, the terminator positions, and the replies owed.
pub fn model_streams(bytes: &[u8], start: usize, id: u16, role: u16) -> StreamModel {
    let (recs, tail) = wire::scan(&bytes[start..]);
    let recs: Vec<Rec> = recs.into_iter().map(|r| shift(r, start)).collect();
    let order = wire::role_input_streams(role);
    let mut streams: Vec<StreamInfo> = order
        .iter()
        .map(|&t| StreamInfo { rtype: t, content: Vec::new(), term_off: None, term_own: false, segments: Vec::new() })
        .collect();
    let mut replies = Vec::new();
    let mut abort_off = None;
    // index of the stream currently being collected
    let mut cur = 0usize;

    for r in &recs {
        if r.version != 1 {
            break;
        }
        if !wire::known_type(r.rtype) {
            replies.push(ModelReply { reply: Reply::Unknown { rtype: r.rtype, id: r.id }, src_off: r.off, src_end: r.end });
            continue;
        }
        if r.rtype == wire::GETVALUES && r.id == 0 {
            replies.push(ModelReply { reply: values_reply(r.body(bytes)), src_off: r.off, src_end: r.end });
            continue;
        }
        if r.rtype == wire::ABORT && r.id == id {
            abort_off = Some(r.off);
            break;
        }
        if r.rtype == wire::BEGIN && r.id != id {
            let b = r.body(bytes);
            let unknown_role = b.len() == 8 && !role_known(u16::from_be_bytes([b[0], b[1]]));
            let reply = if unknown_role { Reply::EndMpxOrRole { id: r.id } } else { Reply::End { id: r.id, status: wire::ST_CANT_MPX } };
            replies.push(ModelReply { reply, src_off: r.off, src_end: r.end });
            continue;
        }
        if (r.rtype == wire::STDIN || r.rtype == wire::DATA) && r.id == id {
            if let Some(pos) = order.iter().position(|&t| t == r.rtype) {
                // advance over streams terminated by the arrival of a later stream's record
                while cur < streams.len() && pos > cur {
                    if streams[cur].term_off.is_none() {
                        streams[cur].term_off = Some(r.off);
                        streams[cur].term_own = false;
                    }
                    cur += 1;
                }
                if pos == cur && cur < streams.len() && streams[cur].term_off.is_none() {
                    if r.len() == 0 {
                        streams[cur].term_off = Some(r.off);
                        streams[cur].term_own = true;
                        cur += 1;
                    } else {
                        streams[cur].content.extend_from_slice(r.body(bytes));
                        streams[cur].segments.push((r.off, r.content.clone()));
                    }
                }
                // pos < cur: record of an earlier stream -> skipped
            }
            // not an input stream of this role -> skipped
        }
        // everything else skipped
    }
    // an incomplete trailing record of the stream being collected: the payload bytes that are
    // present already belong to the stream's content (the record's own header says so)
    let stopped_early = abort_off.is_some() || recs.iter().any(|r| r.version != 1);
    let t = &bytes[start + tail..];
    if !stopped_early && t.len() > 8 && t[0] == 1 && (t[1] == wire::STDIN || t[1] == wire::DATA) && u16::from_be_bytes([t[2], t[3]]) == id {
        if let Some(pos) = order.iter().position(|&x| x == t[1]) {
            let clen = usize::from(u16::from_be_bytes([t[4], t[5]]));
            while cur < streams.len() && pos > cur {
                if streams[cur].term_off.is_none() {
                    streams[cur].term_off = Some(start + tail);
                    streams[cur].term_own = false;
                }
                cur += 1;
            }
            if pos == cur && cur < streams.len() && streams[cur].term_off.is_none() && clen > 0 {
                let avail = (t.len() - 8).min(clen);
                streams[cur].content.extend_from_slice(&t[8..8 + avail]);
            }
        }
    }
    StreamModel { streams, replies, abort_off, scanned_to: start + tail }
}

/// A decoded server->client record, as far as the oracles care.
#[derive(Clone, Debug, PartialEq, Eq)]
pub enum OutRec {
    Values { id: u16, pairs: Vec<(Vec<u8>, Vec<u8>)>, rest: usize, clen: usize, pad: u8 },
    Unknown { id: u16, rtype: u8, clen: usize },
    End { id: u16, app: u32, status: u8, clen: usize },
    Stream { rtype: u8, id: u16, data: Vec<u8>, pad: u8 },
    Other { rtype: u8, id: u16, clen: usize },
}

/// Decodes server output into records. Returns the records and the offset of the incomplete
/// tail; `Err` if a record is malformed in a way no server output may be (bad version).
pub fn decode_output(out: &[u8]) -> Result<(Vec<OutRec>, usize), String> {
    let (recs, tail) = wire::scan(out);
    let mut v = Vec::new();
    for r in &recs {
        if r.version != 1 {
            return Err(format!("output record at {} has version {}", r.off, r.version));
        }
        let body = r.body(out);
        v.push(match r.rtype {
            wire::GETVALUESRESULT => {
                let (pairs, rest) = wire::decode_nv(body);
                OutRec::Values { id: r.id, pairs, rest: body.len() - rest, clen: body.len(), pad: r.padding }
            }
            wire::UNKNOWN => OutRec::Unknown { id: r.id, rtype: body.first().copied().unwrap_or(0), clen: body.len() },
            wire::END => {
                if body.len() >= 5 {
                    OutRec::End {
                        id: r.id,
                        app: u32::from_be_bytes([body[0], body[1], body[2], body[3]]),
                        status: body[4],
                        clen: body.len(),
                    }
                } else {
                    OutRec::Other { rtype: r.rtype, id: r.id, clen: body.len() }
                }
            }
            wire::STDOUT | wire::STDERR => OutRec::Stream { rtype: r.rtype, id: r.id, data: body.to_vec(), pad: r.padding },
            t => OutRec::Other { rtype: t, id: r.id, clen: body.len() },
        });
    }
    Ok((v, tail))
}

/// Does the decoded record `got` satisfy the model reply `want` (with the documented
/// tolerances)? `max_conns` is the configured connection limit.
pub fn reply_matches(want: &Reply, got: &OutRec, max_conns: &str) -> Result<(), String> {
    match (want, got) {
        (Reply::Values { names, .. }, OutRec::Values { id, pairs, rest, clen, .. }) => {
            if *id != 0 {
                return Err(format!("GetValuesResult with request id {id}"));
            }
            if *rest != 0 {
                return Err("GetValuesResult body has trailing undecodable bytes".into());
            }
            if *clen > 96 {
                return Err(format!("GetValuesResult body of {clen} bytes exceeds the advertised maximum"));
            }
            let mut seen = BTreeSet::new();
            for (n, v) in pairs {
                let n = String::from_utf8_lossy(n).to_string();
                if !names.contains(&n) {
                    return Err(format!("GetValuesResult lists unrequested/unknown variable {n:?}"));
                }
                if !seen.insert(n.clone()) {
                    return Err(format!("GetValuesResult lists {n:?} twice"));
                }
                let exp: &str = if n == "FCGI_MPXS_CONNS" { "0" } else { max_conns };
                if v != exp.as_bytes() {
                    return Err(format!("GetValuesResult {n} = {:?}, expected {exp:?}", String::from_utf8_lossy(v)));
                }
            }
            if seen.len() != names.len() {
                return Err(format!("GetValuesResult lists {seen:?}, expected {names:?}"));
            }
            Ok(())
        }
        (Reply::Unknown { rtype, id: _ }, OutRec::Unknown { id: gid, rtype: grt, clen }) => {
            // request id of the reply: 0 (management) or echoed — both accepted
            let _ = gid;
            if *clen != 8 {
                return Err(format!("UnknownType body length {clen}"));
            }
            if rtype != grt {
                return Err(format!("UnknownType reply names type {grt}, expected {rtype}"));
            }
            Ok(())
        }
        (Reply::End { id, status }, OutRec::End { id: gid, status: gst, clen, .. }) => {
            if *clen != 8 {
                return Err(format!("EndRequest body length {clen}"));
            }
            if id != gid {
                return Err(format!("EndRequest for id {gid}, expected {id}"));
            }
            if status != gst {
                return Err(format!("EndRequest protocol status {gst}, expected {status}"));
            }
            Ok(())
        }
        (Reply::EndMpxOrRole { id }, OutRec::End { id: gid, status: gst, clen, .. }) => {
            if *clen != 8 || id != gid || !(*gst == wire::ST_CANT_MPX || *gst == wire::ST_UNKNOWN_ROLE) {
                return Err(format!("EndRequest id {gid} status {gst}, expected id {id} CantMpxConn/UnknownRole"));
            }
            Ok(())
        }
        (w, g) => Err(format!("reply mismatch: expected {w:?}, got {g:?}")),
    }
}

/// Compares a decoded reply list against the model's, honouring the empty-GetValues tolerance.
/// Returns Ok(number matched) or the first discrepancy.
pub fn replies_match(want: &[ModelReply], got: &[OutRec], max_conns: &str) -> Result<usize, String> {
    // positions in `got` reachable after accounting for want[..wi]; optional replies
    // (empty-body GetValues) may or may not have produced a record
    let mut reach: Vec<usize> = vec![0];
    let mut last_err = String::new();
    for (wi, w) in want.iter().enumerate() {
        let optional = matches!(&w.reply, Reply::Values { empty_body: true, .. });
        let mut next: Vec<usize> = Vec::new();
        for &gi in &reach {
            if optional && !next.contains(&gi) {
                next.push(gi);
            }
            match got.get(gi) {
                Some(g) => match reply_matches(&w.reply, g, max_conns) {
                    Ok(()) => {
                        if !next.contains(&(gi + 1)) {
                            next.push(gi + 1);
                        }
                    }
                    Err(e) => last_err = format!("reply #{wi} (for record at offset {}): {e}", w.src_off),
                },
                None => {
                    last_err = format!(
                        "reply #{wi} (for record at offset {}) missing: expected {:?}, output has only {} record(s)",
                        w.src_off,
                        w.reply,
                        got.len()
                    );
                }
            }
        }
        if next.is_empty() {
            return Err(last_err);
        }
        reach = next;
    }
    if reach.contains(&got.len()) {
        return Ok(got.len());
    }
    let gi = reach.iter().copied().max().unwrap_or(0);
    Err(format!("unexpected extra output record #{gi}: {:?}", got.get(gi)))
}
