//! A minimal `tracing` subscriber that enables every level and formats every field of every
//! event / span into a scratch buffer. Without a subscriber the arguments of the crate's
//! `tracing::debug!`/`info!`/`warn!` calls are never evaluated; with this one their formatting
//! code (escape_ascii, Debug of parsed structures, …) runs on every workload, so a panic or an
//! out-of-bounds slice hidden in a log statement becomes observable.

use std::fmt::Write;
use std::sync::atomic::{AtomicU64, Ordering};

use tracing::field::{Field, Visit};
use tracing::span::{Attributes, Id, Record};
use tracing::{Event, Metadata, Subscriber};

pub static EVENTS: AtomicU64 = AtomicU64::new(0);
pub static BYTES: AtomicU64 = AtomicU64::new(0);

struct Fmt(String);
impl Visit for Fmt {
    fn record_debug(&mut self, field: &Field, value: &dyn std::fmt::Debug) {
        let _ = write!(self.0, "{}={:?};", field.name(), value);
    }
}

pub struct All;
impl Subscriber for All {
    fn enabled(&self, _: &Metadata<'_>) -> bool {
        true
    }
    fn new_span(&self, attrs: &Attributes<'_>) -> Id {
        let mut f = Fmt(String::new());
        attrs.record(&mut f);
        BYTES.fetch_add(f.0.len() as u64, Ordering::Relaxed);
        Id::from_u64(1)
    }
    fn record(&self, _: &Id, values: &Record<'_>) {
        let mut f = Fmt(String::new());
        values.record(&mut f);
        BYTES.fetch_add(f.0.len() as u64, Ordering::Relaxed);
    }
    fn record_follows_from(&self, _: &Id, _: &Id) {}
    fn event(&self, event: &Event<'_>) {
        let mut f = Fmt(String::new());
        event.record(&mut f);
        EVENTS.fetch_add(1, Ordering::Relaxed);
        BYTES.fetch_add(f.0.len() as u64, Ordering::Relaxed);
    }
    fn enter(&self, _: &Id) {}
    fn exit(&self, _: &Id) {}
}

pub fn install() {
    let _ = tracing::subscriber::set_global_default(All);
}
