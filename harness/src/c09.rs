//! C09 — async reads deliver exactly the active stream; output gated on the final stream.

use std::path::PathBuf;
use std::pin::Pin;
use std::sync::{Arc, Mutex};

use fastcgi_server::async_io::Request;
use fastcgi_server::parser::request;
use futures_util::io::{AsyncBufReadExt, AsyncReadExt, AsyncWrite};

use crate::c02::config;
use crate::ev::{guarded, Case, Ctx};
use crate::exec::Exec;
use crate::gen::{self, ReqSpec};
use crate::json::{hex_cap, Json};
use crate::rng::{mix, Rng};
use crate::spec::{self, PreOutcome};
use crate::syncdrive::{self as sd, Chunking};
use crate::transport::{Behaviour, Pipe, Reader, Shared, Writer};
use crate::wire;

#[derive(Clone, Debug)]
enum Op {
    Read(usize),
    Fill(usize),
    FillOver(usize),
    /// forward selection of the next stream
    Advance,
    /// an invalid selection (backwards / not in role): documented to panic
    BadSelect(u8),
    Writeable,
    /// output_stream(t): must panic exactly when not writeable or t is no output stream
    TryOutput(u8),
}

#[derive(Default)]
struct Log {
    /// (active stream, bytes) in order
    reads: Vec<(u8, Vec<u8>)>,
    problems: Vec<(String, String)>,
    /// transport bytes read when is_writeable() was first observed true
    writeable_at: Option<usize>,
    eof_streams: Vec<u8>,
    finished: bool,
    error: Option<String>,
    eof_rechecks: u64,
    zero_len_reads: u64,
    bad_selects_rejected: u64,
    output_stream_panics: u64,
    output_stream_ok: u64,
    consume_over: u64,
}

fn problem(log: &Arc<Mutex<Log>>, sig: &str, msg: String) {
    let mut l = log.lock().unwrap();
    if l.problems.len() < 3 {
        l.problems.push((sig.to_string(), msg));
    }
}

async fn interpret(mut req: Request<'_, Reader, Writer>, ops: Vec<Op>, role: u16, pipe: Shared, log: Arc<Mutex<Log>>, was_writeable: bool) {
    let order = wire::role_input_streams(role);
    let mut writeable_seen = was_writeable;
    let mut eof_active = false; // EOF seen for the currently active stream
    macro_rules! sample {
        () => {{
            let w = req.is_writeable();
            if writeable_seen && !w {
                problem(&log, "writeable-not-monotone", "is_writeable() went from true to false".into());
            }
            if w && !writeable_seen {
                writeable_seen = true;
                let rt = pipe.lock().unwrap_or_else(std::sync::PoisonError::into_inner).read_total;
                if std::env::var("C09_DEBUG").is_ok() {
                    eprintln!("writeable flipped at read_total={rt} active={:?}", req.active_stream());
                }
                log.lock().unwrap().writeable_at = Some(rt);
            }
        }};
    }
    sample!();
    for op in ops {
        let active = req.active_stream().map_or(0, u8::from);
        if std::env::var("C09_DEBUG").is_ok() {
            eprintln!("op {op:?} active={active} read_total={}", pipe.lock().unwrap_or_else(std::sync::PoisonError::into_inner).read_total);
        }
        match op {
            Op::Read(n) => {
                let mut buf = vec![0xEEu8; n];
                match req.read(&mut buf).await {
                    Ok(k) => {
                        if n == 0 {
                            log.lock().unwrap().zero_len_reads += 1;
                            if k != 0 {
                                problem(&log, "zero-length-read", format!("read into an empty buffer returned {k}"));
                            }
                        } else if k == 0 {
                            if !eof_active {
                                eof_active = true;
                                log.lock().unwrap().eof_streams.push(active);
                            } else {
                                log.lock().unwrap().eof_rechecks += 1;
                            }
                        } else {
                            if eof_active {
                                problem(&log, "eof-not-persistent", format!("after end-of-file on stream {active} a later read returned {k} bytes without set_stream"));
                            }
                            if k > n || buf[k..].iter().any(|&b| b != 0xEE) {
                                problem(&log, "read-overrun", format!("read returned {k} for a {n}-byte buffer or wrote beyond what it reported"));
                            }
                            log.lock().unwrap().reads.push((active, buf[..k.min(n)].to_vec()));
                        }
                    }
                    Err(e) => {
                        log.lock().unwrap().error = Some(format!("read: {e}"));
                        break;
                    }
                }
            }
            Op::Fill(k) | Op::FillOver(k) => {
                let over = matches!(op, Op::FillOver(_));
                match req.fill_buf().await.map(<[u8]>::to_vec) {
                    Ok(avail) => {
                        if avail.is_empty() {
                            if !eof_active {
                                eof_active = true;
                                log.lock().unwrap().eof_streams.push(active);
                            } else {
                                log.lock().unwrap().eof_rechecks += 1;
                            }
                        } else if eof_active {
                            problem(&log, "eof-not-persistent", format!("after end-of-file on stream {active} fill_buf returned {} bytes without set_stream", avail.len()));
                        }
                        let take = if over { avail.len() + k } else { k.min(avail.len()) };
                        if over {
                            log.lock().unwrap().consume_over += 1;
                        }
                        let seen = avail[..take.min(avail.len())].to_vec();
                        if !seen.is_empty() {
                            log.lock().unwrap().reads.push((active, seen));
                        }
                        // consume (even beyond the buffer) must be clamped, never panic
                        if let Err(p) = guarded(|| req.consume_unpin(take)) {
                            problem(&log, "consume-panicked", format!("consume({take}) with {} bytes buffered panicked: {p}", avail.len()));
                            break;
                        }
                        // what was not consumed must still be there, in order
                        if take < avail.len() {
                            match req.fill_buf().await.map(<[u8]>::to_vec) {
                                Ok(rest) => {
                                    if !rest.starts_with(&avail[take..]) {
                                        problem(&log, "consume-lost-bytes", format!("after consume({take}) of {} buffered bytes the buffer does not continue with the unconsumed rest", avail.len()));
                                    }
                                }
                                Err(e) => {
                                    log.lock().unwrap().error = Some(format!("fill_buf: {e}"));
                                    break;
                                }
                            }
                        }
                    }
                    Err(e) => {
                        log.lock().unwrap().error = Some(format!("fill_buf: {e}"));
                        break;
                    }
                }
            }
            Op::Advance => {
                if let Some(pos) = order.iter().position(|&t| t == active) {
                    if let Some(&next) = order.get(pos + 1) {
                        match guarded(|| req.set_stream(sd::rt(next))) {
                            Ok(()) => {
                                eof_active = false;
                                if req.active_stream().map(u8::from) != Some(next) {
                                    problem(&log, "set-stream-not-applied", format!("set_stream({next}) did not change the active stream"));
                                }
                            }
                            Err(p) => problem(&log, "forward-set-stream-panicked", format!("set_stream({next}) after {active} panicked: {p}")),
                        }
                    }
                }
            }
            Op::BadSelect(t) => {
                let valid = order.iter().position(|&x| x == t).zip(order.iter().position(|&x| x == active)).map_or(false, |(a, b)| a >= b);
                if !valid {
                    let before = req.active_stream().map(u8::from);
                    match guarded(|| req.set_stream(sd::rt(t))) {
                        Ok(()) => problem(&log, "invalid-selection-accepted", format!("set_stream({t}) with active stream {active} (role {role}) did not panic")),
                        Err(_) => {
                            log.lock().unwrap().bad_selects_rejected += 1;
                            if req.active_stream().map(u8::from) != before {
                                problem(&log, "rejected-selection-changed-state", "a rejected set_stream changed the active stream".into());
                            }
                        }
                    }
                }
            }
            Op::Writeable => {
                let r = req.writeable().await;
                if std::env::var("C09_DEBUG").is_ok() {
                    let p = pipe.lock().unwrap_or_else(std::sync::PoisonError::into_inner);
                    eprintln!("writeable() returned {r:?} read_total={} sent_total={} inbox={} is_writeable={}", p.read_total, p.sent_total, p.inbox.len(), req.is_writeable());
                }
                match r {
                    Ok(()) => {
                        if !req.is_writeable() {
                            problem(&log, "writeable-returned-but-not-writeable", "writeable() returned Ok but is_writeable() is false".into());
                        }
                        if req.active_stream().map(u8::from) != order.last().copied() {
                            problem(&log, "writeable-wrong-stream", format!("after writeable() the active stream is {:?}, expected the role's final stream", req.active_stream()));
                        }
                        if active != req.active_stream().map_or(0, u8::from) {
                            eof_active = false;
                        }
                    }
                    Err(e) => {
                        log.lock().unwrap().error = Some(format!("writeable: {e}"));
                        break;
                    }
                }
            }
            Op::TryOutput(t) => {
                let w = req.is_writeable();
                let is_out = t == wire::STDOUT || t == wire::STDERR;
                let r = guarded(|| drop(req.output_stream(sd::rt(t))));
                match (r.is_ok(), w && is_out) {
                    (true, true) => log.lock().unwrap().output_stream_ok += 1,
                    (false, false) => log.lock().unwrap().output_stream_panics += 1,
                    (true, false) => problem(&log, "output-stream-handed-out-early", format!("output_stream({t}) succeeded although is_writeable() = {w}")),
                    (false, true) => problem(&log, "output-stream-refused", format!("output_stream({t}) panicked although the request is writeable")),
                }
            }
        }
        sample!();
    }
    log.lock().unwrap().finished = true;
}

fn gen_ops(rng: &mut Rng, role: u16) -> Vec<Op> {
    let n_streams = wire::role_input_streams(role).len();
    let mut ops = Vec::new();
    for s in 0..n_streams.max(1) {
        for _ in 0..rng.below(14) {
            ops.push(match rng.below(12) {
                0 => Op::Read(0),
                1..=3 => Op::Read(*rng.pick(&[1usize, 2, 7, 8, 9, 33, 500])),
                4 | 5 => Op::Fill(*rng.pick(&[0usize, 1, 3, 50, 10_000])),
                6 => Op::FillOver(*rng.pick(&[1usize, 100, usize::MAX / 2])),
                7 => Op::BadSelect(*rng.pick(&[wire::STDIN, wire::DATA, wire::PARAMS, wire::STDOUT])),
                8 => Op::TryOutput(*rng.pick(&[wire::STDOUT, wire::STDERR, wire::STDIN, wire::DATA, wire::PARAMS])),
                9 if rng.chance(1, 3) => Op::Writeable,
                _ => Op::Read(64),
            });
        }
        if rng.chance(1, 2) {
            // read to the end of the stream, then check that EOF persists
            for _ in 0..40 {
                ops.push(Op::Read(997));
            }
            ops.push(Op::Read(5));
            ops.push(Op::Fill(1));
        }
        if s + 1 < n_streams {
            ops.push(if rng.chance(1, 3) { Op::Writeable } else { Op::Advance });
        }
    }
    ops.push(Op::TryOutput(wire::STDOUT));
    ops
}

fn run_one(c: &mut Case) {
    let buffer = *c.rng.pick(&[24usize, 64, 256, 8192]);
    let role = *c.rng.pick(&[wire::RESPONDER, wire::FILTER, wire::FILTER, wire::AUTHORIZER]);
    let id = gen::gen_request_id(&mut c.rng);
    let spec_ = ReqSpec {
        id,
        role,
        flags: 1,
        max_pairs: 2,
        max_pair: buffer.max(24) - 13,
        big_pairs: false,
        max_stream_records: 6,
        big_records: buffer >= 256 && c.rng.chance(1, 8),
        extra_pct_pre: 0,
        extra_pct_stream: *c.rng.pick(&[0usize, 30]),
        tag_base: 1,
        extras_pre: &gen::EXTRAS_PREAMBLE,
        extras_stream: &[gen::Extra::GetValues, gen::Extra::UnknownType, gen::Extra::ForeignStream, gen::Extra::StaleParams, gen::Extra::OutOfRoleStream],
        marker: None,
    };
    let mut wire_bytes = Vec::new();
    gen::push_request(&mut c.rng, &mut wire_bytes, &spec_);
    let pre = spec::model_preamble(&wire_bytes, 0);
    let PreOutcome::Done(info) = pre.outcome else { return };
    let model = spec::model_streams(&wire_bytes, info.end_off, id, role);
    let cfg = config(buffer, 4);
    let mut ch = Chunking::Fill;
    let run = sd::drive_request(request::Parser::new(&cfg), &wire_bytes[..info.end_off], 0, info.end_off, &mut ch, &mut c.rng, false);
    let Some(Ok(sp)) = run.parser.map(request::Parser::into_stream_parser) else { return };
    let beh = Behaviour::random(&mut c.rng);
    let pipe = Pipe::new(Rng::new(c.rng.next_u64()), beh.clone());
    let req = Request::new(sp, Reader(pipe.clone()), Writer(pipe.clone()));
    let writeable0 = req.is_writeable();
    let order = wire::role_input_streams(role);
    if writeable0 != (order.len() <= 1) {
        c.violation("writeable-at-construction", Json::obj().with("role", role).with("is_writeable", writeable0));
        return;
    }
    let ops = gen_ops(&mut c.rng, role);
    let log = Arc::new(Mutex::new(Log::default()));
    let mut exec = Exec::new();
    // optional competing writer holding the output lock from time to time
    let competing = writeable0 && c.rng.chance(1, 2);
    let wdone = Arc::new(Mutex::new(false));
    if competing {
        let mut w = req.output_stream(sd::rt(wire::STDOUT));
        let n = 1 + c.rng.below(5);
        let wdone = wdone.clone();
        exec.spawn(Box::pin(async move {
            for i in 0..n {
                let buf = vec![0x40u8 | i as u8; 9 + i * 31];
                let _ = std::future::poll_fn(|cx| Pin::new(&mut w).poll_write(cx, &buf)).await;
            }
            *wdone.lock().unwrap() = true;
        }));
    }
    let main = exec.spawn(Box::pin(interpret(req, ops.clone(), role, pipe.clone(), log.clone(), writeable0)));
    let mut sent = info.end_off;
    let piece = *c.rng.pick(&[1usize, 9, 64, 100_000]);
    let mut steps = 0u64;
    let mut hist = 0u64;
    let mut closed = false;
    loop {
        steps += 1;
        if steps > 400_000 {
            c.l.count("step_budget_exhausted");
            return;
        }
        let mut acts: Vec<u8> = exec.runnable().into_iter().map(|t| t as u8).collect();
        let (rg, wg) = {
            let p = pipe.lock().unwrap_or_else(std::sync::PoisonError::into_inner);
            (p.read_gated, p.write_gated)
        };
        if sent < wire_bytes.len() {
            acts.push(10);
        } else if !closed {
            acts.push(13);
        }
        if rg {
            acts.push(11);
        }
        if wg {
            acts.push(12);
        }
        if acts.is_empty() {
            break;
        }
        let a = acts[c.rng.below(acts.len())];
        hist = mix(hist, u64::from(a));
        match a {
            10 => {
                let n = piece.min(wire_bytes.len() - sent);
                pipe.lock().unwrap_or_else(std::sync::PoisonError::into_inner).peer_send(&wire_bytes[sent..sent + n]);
                sent += n;
            }
            11 => pipe.lock().unwrap_or_else(std::sync::PoisonError::into_inner).reader_ready(),
            12 => pipe.lock().unwrap_or_else(std::sync::PoisonError::into_inner).writer_ready(),
            13 => {
                closed = true;
                pipe.lock().unwrap_or_else(std::sync::PoisonError::into_inner).peer_close();
            }
            t => {
                exec.poll(t as usize);
            }
        }
    }
    c.l.add("executor_steps", steps);
    c.l.state(hist);
    let l = log.lock().unwrap();
    let out = pipe.lock().unwrap_or_else(std::sync::PoisonError::into_inner).outbox.clone();
    let fail = |c: &mut Case, sig: &str, msg: String| {
        c.violation(
            sig,
            Json::obj()
                .with("problem", msg)
                .with("role", role)
                .with("buffer_size", buffer)
                .with("transport", format!("{beh:?}"))
                .with("ops", format!("{ops:?}"))
                .with("wire_hex", hex_cap(&wire_bytes, 20000))
                .with("output_hex", hex_cap(&out, 2000)),
        );
    };
    if let Some((s, m)) = l.problems.first() {
        fail(c, s, m.clone());
        return;
    }
    if !exec.is_done(main) {
        fail(c, "reader-stalled", format!("quiescent but the reading task has not finished (all {} input bytes sent and the peer closed)", wire_bytes.len()));
        return;
    }
    if let Some(e) = &l.error {
        // the input is complete and well-formed: no read may fail (UnexpectedEof would mean the
        // terminator was missed)
        fail(c, "unexpected-read-error", format!("a read failed on well-formed input: {e}"));
        return;
    }
    // bytes per stream: prefix of E(s); complete if EOF was seen
    for si in &model.streams {
        let mut got = Vec::new();
        for (s, b) in &l.reads {
            if *s == si.rtype {
                got.extend_from_slice(b);
            }
        }
        if !si.content.starts_with(&got) {
            let bad = got.iter().zip(&si.content).take_while(|(a, b)| a == b).count();
            fail(c, "read-wrong-bytes", format!("stream {}: bytes returned are not a prefix of the stream (first difference at {bad}; returned {}, stream has {})", si.rtype, got.len(), si.content.len()));
            return;
        }
        if l.eof_streams.contains(&si.rtype) {
            if got.len() != si.content.len() {
                fail(c, "premature-eof", format!("stream {}: end-of-file after {} of {} bytes", si.rtype, got.len(), si.content.len()));
                return;
            }
            c.l.count("streams_read_to_eof");
        }
    }
    if let Some((s, b)) = l.reads.iter().find(|(s, _)| !model.streams.iter().any(|x| x.rtype == *s)) {
        fail(c, "read-without-stream", format!("{} bytes returned while the active stream was {s}", b.len()));
        return;
    }
    // writeable only once the final stream has begun (its first record's header was delivered)
    if order.len() > 1 {
        if let Some(at) = l.writeable_at.map(|a| a + info.end_off) {
            // (the preamble was parsed synchronously; the pipe only carried the bytes after it)
            let last = *order.last().expect("stream");
            let (recs, _) = wire::scan(&wire_bytes);
            let first = recs.iter().find(|r| r.off >= info.end_off && r.rtype == last && r.id == id).map(|r| r.off + 8);
            match first {
                Some(need) if at >= need => c.l.count("writeable_transitions_checked"),
                Some(need) => {
                    fail(c, "writeable-too-early", format!("is_writeable() became true after {at} transport bytes, the final stream's first record header ends at {need}"));
                    return;
                }
                None => {
                    fail(c, "writeable-without-final-stream", "is_writeable() became true although the input has no record of the final stream".into());
                    return;
                }
            }
        }
    }
    // replies flushed so far must be a prefix of the owed ones, in order
    match spec::decode_output(&out) {
        Ok((recs, _)) => {
            let mgmt: Vec<_> = recs.into_iter().filter(|r| !matches!(r, spec::OutRec::Stream { .. })).collect();
            if let Err(m) = crate::c07::prefix_match(&model.replies, &mgmt, "4") {
                fail(c, "management-replies", m);
                return;
            }
            c.l.add("replies_flushed_while_reading", mgmt.len() as u64);
        }
        Err(m) => {
            fail(c, "output-malformed", m);
            return;
        }
    }
    c.l.count("scripts_completed");
    c.l.add("eof_persistence_rechecks", l.eof_rechecks);
    c.l.add("zero_length_reads", l.zero_len_reads);
    c.l.add("invalid_selections_rejected", l.bad_selects_rejected);
    c.l.add("output_stream_refusals", l.output_stream_panics);
    c.l.add("output_stream_grants", l.output_stream_ok);
    c.l.add("consume_beyond_buffer", l.consume_over);
    if competing {
        c.l.count("runs_with_competing_writer");
    }
    let mut h = beh.class();
    for op in &ops {
        h = mix(h, match op {
            Op::Read(n) => *n as u64,
            Op::Fill(n) => 0x100 + *n as u64,
            Op::FillOver(_) => 0x200,
            Op::Advance => 0x300,
            Op::BadSelect(t) => 0x400 + u64::from(*t),
            Op::Writeable => 0x500,
            Op::TryOutput(t) => 0x600 + u64::from(*t),
        });
    }
    c.l.sig(mix(h, crate::rng::hash_bytes(9, &wire_bytes[..wire_bytes.len().min(100)])));
    if c.index == 1 {
        c.l.sample(Json::obj().with("role", role).with("buffer_size", buffer).with("ops", format!("{ops:?}")).with("transport", format!("{beh:?}")));
    }
}

pub fn run(ctx: &Ctx, evidence: Option<&PathBuf>) -> i32 {
    ctx.run_fixed("directed", ctx.dn(400), run_one);
    let n = ctx.size(30_000, 3_000_000);
    ctx.run_cases("scripts", n, run_one);
    ctx.gate("scripts_completed", 500);
    ctx.gate("streams_read_to_eof", 100);
    ctx.gate("eof_persistence_rechecks", 100);
    ctx.gate("writeable_transitions_checked", 50);
    ctx.gate("invalid_selections_rejected", 50);
    ctx.gate("output_stream_refusals", 50);
    ctx.gate("output_stream_grants", 50);
    ctx.gate("consume_beyond_buffer", 50);
    ctx.gate("replies_flushed_while_reading", 50);
    ctx.gate("runs_with_competing_writer", 50);
    ctx.finish(
        "exploration",
        "Request::new over a mock transport, driven call by call by seeded scripts: read(buf of 0,1,2,7,8,9,33,64,500,997 bytes), fill_buf + consume(k) incl. k far beyond the buffer, forward set_stream, invalid set_stream (backwards / out of role / not a stream type), writeable(), output_stream(t) for output and non-output types; \
         all roles; stream contents 0..6 records with tagged bytes, management / stray / out-of-role records mid-stream; transport reads 1..n bytes or Pending, replies flushed through a writer that accepts 1..n bytes or is Pending, optionally a concurrently polled StreamWriter competing for the output lock; input released in pieces. \
         Oracle: returned bytes per stream concatenate to a prefix of E(s), all of it when end-of-file was returned; end-of-file persists for every later read / fill_buf until set_stream; zero-length reads return 0; unconsumed buffered bytes survive consume; no byte is returned while another stream is active; \
         is_writeable() is true at construction iff the role has <= 1 input stream, is monotone, and first becomes true only after the transport delivered the header of the final stream's first record; writeable() leaves the final stream active; output_stream panics exactly when !is_writeable or the type is no output stream; invalid selections panic and change nothing; \
         no read fails on well-formed input; replies flushed while reading are a prefix of the owed list; quiescence with the reader unfinished = stall. distinct_nontrivial = distinct (script, transport class, wire digest) (set).",
        &["mock transport, reference model spec.rs", "documented panics are observed with catch_unwind"],
        false,
        evidence,
    )
}
