//! Interpreted request handlers (the "family" of handler behaviours) with a complete log of
//! what the handler observed: invocation count, environment, bytes read, errors, writeable flag.

use std::io;
use std::sync::{Arc, Mutex};

use fastcgi_server::async_io::Request;
use fastcgi_server::protocol::RecordType;
use fastcgi_server::ExitStatus;
use futures_util::future::BoxFuture;
use futures_util::io::{AsyncBufReadExt, AsyncReadExt, AsyncWriteExt};

use crate::rng::Rng;
use crate::syncdrive::ReqView;
use crate::transport::{Reader, Writer};
use crate::wire;

pub type Req<'a> = Request<'a, Reader, Writer>;

#[derive(Clone, Debug, PartialEq, Eq)]
pub enum Op {
    /// one poll_read-level read with a buffer of n bytes
    Read(usize),
    /// read_exact(n) (fails with UnexpectedEof if the stream is shorter)
    ReadExact(usize),
    /// read until end of the active stream
    ReadToEnd,
    /// fill_buf, then consume min(k, available)
    FillConsume(usize),
    /// fill_buf, then consume k even if k exceeds what is available
    FillConsumeOver(usize),
    SetStream(u8),
    AwaitWriteable,
    /// write_all of `len` tagged bytes to the stream (6 = stdout, 7 = stderr)
    Write(u8, usize),
    Flush(u8),
    /// yield once to the executor (the task is woken immediately)
    Yield,
    /// poll a read of n bytes ONCE and abandon it if it is not ready (a handler racing the read
    /// against a timeout); only generated as the last operation before the handler returns
    TryRead(usize),
    /// copy the rest of the active input stream to the output stream the way `futures::io::copy_buf`
    /// (and the crate's own `hello-cgi` echo example) does: every poll starts with the reader's
    /// poll_fill_buf, then the writer's poll_write of what is buffered, consume, ... and a final
    /// poll_flush at end-of-file — so the reader is polled again while a write or flush of the
    /// handler's own writer is still pending
    Echo(u8),
}

#[derive(Clone, Debug)]
pub struct Script {
    pub ops: Vec<Op>,
    /// return the first I/O error (the task tears the connection down) instead of swallowing it
    pub propagate: bool,
    pub status: ExitStatus,
}

#[derive(Clone, Debug, Default)]
pub struct Invocation {
    pub view: Option<ReqView>,
    /// (stream type, bytes) in the order they were read
    pub reads: Vec<(u8, Vec<u8>)>,
    /// stream types for which an end-of-file (read of 0 bytes into a non-empty buffer) was seen
    pub eofs: Vec<u8>,
    pub errors: Vec<(String, io::ErrorKind)>,
    /// (stream, bytes) successfully written (write_all completed)
    pub writes: Vec<(u8, Vec<u8>)>,
    pub writeable_samples: Vec<bool>,
    /// false until the handler future returned
    pub finished: bool,
    pub returned: Option<Result<ExitStatus, io::ErrorKind>>,
    pub zero_len_reads_ok: bool,
    /// the async Request's contains_var / get_var / get_var_str wrappers agree with env_iter
    pub wrappers_ok: bool,
    /// executor step (world clock) at which the invocation started
    pub started_at: u64,
    pub output_stream_panics: u32,
    pub abandoned_reads: u32,
    /// successful poll_write calls of Echo operations
    pub echo_polls: u32,
}

#[derive(Default)]
pub struct HLog {
    pub invocations: Vec<Invocation>,
    pub clock: u64,
}

pub type SharedLog = Arc<Mutex<HLog>>;

pub fn status_name(s: ExitStatus) -> String {
    format!("{s:?}")
}

/// Tagged output payload: high bit set pattern per stream so a byte names the write it belongs to.
pub fn out_payload(stream: u8, seq: usize, len: usize) -> Vec<u8> {
    (0..len).map(|i| ((stream & 1) << 7) | ((seq as u8 & 7) << 4) | (i as u8 & 0x0f)).collect()
}

async fn interpret(req: &mut Req<'_>, script: Script, log: SharedLog, idx: usize) -> io::Result<ExitStatus> {
    let mut seq = 0usize;
    macro_rules! sample {
        () => {{
            let w = req.is_writeable();
            log.lock().unwrap().invocations[idx].writeable_samples.push(w);
        }};
    }
    macro_rules! fail {
        ($what:expr, $e:expr) => {{
            let e: io::Error = $e;
            log.lock().unwrap().invocations[idx].errors.push(($what.to_string(), e.kind()));
            if script.propagate {
                return Err(e);
            }
            break;
        }};
    }
    sample!();
    #[allow(clippy::never_loop)]
    for op in &script.ops {
        match op {
            Op::Read(n) => {
                let mut buf = vec![0u8; *n];
                let active = req.active_stream().map_or(0, u8::from);
                match req.read(&mut buf).await {
                    Ok(k) => {
                        let mut l = log.lock().unwrap();
                        let inv = &mut l.invocations[idx];
                        if *n == 0 {
                            if k != 0 {
                                inv.zero_len_reads_ok = false;
                            }
                        } else if k == 0 {
                            inv.eofs.push(active);
                        } else {
                            inv.reads.push((active, buf[..k].to_vec()));
                        }
                    }
                    Err(e) => fail!("read", e),
                }
            }
            Op::ReadExact(n) => {
                let mut buf = vec![0u8; *n];
                let active = req.active_stream().map_or(0, u8::from);
                match req.read_exact(&mut buf).await {
                    Ok(()) => log.lock().unwrap().invocations[idx].reads.push((active, buf)),
                    Err(e) => fail!("read_exact", e),
                }
            }
            Op::ReadToEnd => {
                let active = req.active_stream().map_or(0, u8::from);
                let mut buf = [0u8; 97];
                let mut failed = None;
                loop {
                    match req.read(&mut buf).await {
                        Ok(0) => {
                            log.lock().unwrap().invocations[idx].eofs.push(active);
                            break;
                        }
                        Ok(k) => log.lock().unwrap().invocations[idx].reads.push((active, buf[..k].to_vec())),
                        Err(e) => {
                            failed = Some(e);
                            break;
                        }
                    }
                    sample!();
                }
                if let Some(e) = failed {
                    fail!("read_to_end", e);
                }
            }
            Op::FillConsume(k) | Op::FillConsumeOver(k) => {
                let active = req.active_stream().map_or(0, u8::from);
                let over = matches!(op, Op::FillConsumeOver(_));
                let r = req.fill_buf().await.map(<[u8]>::to_vec);
                match r {
                    Ok(avail) => {
                        let take = if over { *k } else { (*k).min(avail.len()) };
                        let seen = avail[..take.min(avail.len())].to_vec();
                        {
                            let mut l = log.lock().unwrap();
                            let inv = &mut l.invocations[idx];
                            if avail.is_empty() {
                                inv.eofs.push(active);
                            } else if !seen.is_empty() {
                                inv.reads.push((active, seen));
                            }
                        }
                        req.consume_unpin(take);
                    }
                    Err(e) => fail!("fill_buf", e),
                }
            }
            Op::SetStream(t) => {
                if let Ok(rt) = RecordType::try_from(*t) {
                    req.set_stream(rt);
                }
            }
            Op::AwaitWriteable => {
                if let Err(e) = req.writeable().await {
                    fail!("writeable", e);
                }
                if !req.is_writeable() {
                    log.lock().unwrap().invocations[idx].errors.push(("writeable-returned-ok-but-not-writeable".into(), io::ErrorKind::Other));
                }
            }
            Op::Write(stream, len) => {
                if !req.is_writeable() {
                    // handlers in this family only write once the request is writeable
                    if let Err(e) = req.writeable().await {
                        fail!("writeable", e);
                    }
                }
                let Ok(rt) = RecordType::try_from(*stream) else { continue };
                let mut w = req.output_stream(rt);
                let data = out_payload(*stream, seq, *len);
                seq += 1;
                match w.write_all(&data).await {
                    Ok(()) => log.lock().unwrap().invocations[idx].writes.push((*stream, data)),
                    Err(e) => {
                        drop(w);
                        fail!("write", e)
                    }
                }
            }
            Op::Flush(stream) => {
                if req.is_writeable() {
                    let Ok(rt) = RecordType::try_from(*stream) else { continue };
                    let mut w = req.output_stream(rt);
                    if let Err(e) = w.flush().await {
                        drop(w);
                        fail!("flush", e);
                    }
                    // closing a stream writer is a no-op (streams end in Request::close)
                    if let Err(e) = w.close().await {
                        drop(w);
                        fail!("close", e);
                    }
                }
            }
            Op::Echo(stream) => {
                use futures_util::io::{AsyncBufRead, AsyncWrite};
                use std::pin::Pin;
                use std::task::Poll;
                if !req.is_writeable() {
                    if let Err(e) = req.writeable().await {
                        fail!("writeable", e);
                    }
                }
                let Ok(rt) = RecordType::try_from(*stream) else { continue };
                let active = req.active_stream().map_or(0, u8::from);
                let mut w = req.output_stream(rt);
                let log2 = log.clone();
                let r: io::Result<()> = std::future::poll_fn(|cx| loop {
                    let buf = match Pin::new(&mut *req).poll_fill_buf(cx) {
                        Poll::Ready(Ok(b)) => b,
                        Poll::Ready(Err(e)) => return Poll::Ready(Err(e)),
                        Poll::Pending => return Poll::Pending,
                    };
                    if buf.is_empty() {
                        return match Pin::new(&mut w).poll_flush(cx) {
                            Poll::Ready(r) => {
                                log2.lock().unwrap().invocations[idx].eofs.push(active);
                                Poll::Ready(r)
                            }
                            Poll::Pending => Poll::Pending,
                        };
                    }
                    let n = match Pin::new(&mut w).poll_write(cx, buf) {
                        Poll::Ready(Ok(n)) => n,
                        Poll::Ready(Err(e)) => return Poll::Ready(Err(e)),
                        Poll::Pending => return Poll::Pending,
                    };
                    if n == 0 {
                        return Poll::Ready(Err(io::ErrorKind::WriteZero.into()));
                    }
                    {
                        let mut l = log2.lock().unwrap();
                        let inv = &mut l.invocations[idx];
                        inv.reads.push((active, buf[..n].to_vec()));
                        inv.writes.push((*stream, buf[..n].to_vec()));
                        inv.echo_polls += 1;
                    }
                    Pin::new(&mut *req).consume(n);
                })
                .await;
                drop(w);
                if let Err(e) = r {
                    fail!("echo", e);
                }
            }
            Op::TryRead(n) => {
                use std::future::Future;
                let mut buf = vec![0u8; *n];
                let active = req.active_stream().map_or(0, u8::from);
                let r = {
                    let mut fut = req.read(&mut buf);
                    std::future::poll_fn(|cx| std::task::Poll::Ready(std::pin::Pin::new(&mut fut).poll(cx))).await
                };
                match r {
                    std::task::Poll::Ready(Ok(k)) => {
                        let mut l = log.lock().unwrap();
                        let inv = &mut l.invocations[idx];
                        if k == 0 && *n > 0 {
                            inv.eofs.push(active);
                        } else if k > 0 {
                            inv.reads.push((active, buf[..k].to_vec()));
                        }
                    }
                    std::task::Poll::Ready(Err(e)) => fail!("read", e),
                    std::task::Poll::Pending => log.lock().unwrap().invocations[idx].abandoned_reads += 1,
                }
            }
            Op::Yield => {
                let mut once = false;
                std::future::poll_fn(|cx| {
                    if once {
                        std::task::Poll::Ready(())
                    } else {
                        once = true;
                        cx.waker().wake_by_ref();
                        std::task::Poll::Pending
                    }
                })
                .await;
            }
        }
        sample!();
    }
    Ok(script.status)
}

/// Builds the handler closure for `Token::run`: request #i of the connection runs `scripts[i]`
/// (the last script repeats).
pub fn make_handler(scripts: Vec<Script>, log: SharedLog) -> impl for<'a, 'b> FnMut(&'a mut Req<'b>) -> BoxFuture<'a, io::Result<ExitStatus>> {
    fn constrain<F>(f: F) -> F
    where
        F: for<'a, 'b> FnMut(&'a mut Req<'b>) -> BoxFuture<'a, io::Result<ExitStatus>>,
    {
        f
    }
    constrain(move |req| {
        let (idx, script) = {
            let mut l = log.lock().unwrap();
            let idx = l.invocations.len();
            let mut env = std::collections::BTreeMap::new();
            let mut wrappers_ok = true;
            for (k, v) in req.env_iter() {
                let key: &str = k.as_ref();
                env.insert(key.to_string(), v.to_vec());
                // the async Request's lookup wrappers agree with the iterator
                wrappers_ok &= req.contains_var(key) && req.get_var(key) == Some(v) && req.get_var_str(key) == std::str::from_utf8(v).ok();
            }
            wrappers_ok &= !req.contains_var("X_ABSENT_\u{2}");
            let view = ReqView { id: 0, role: u16::from(req.role()), flags: req.flags().bits(), env, env_len: req.env_len() };
            let started_at = l.clock;
            l.invocations.push(Invocation { view: Some(view), zero_len_reads_ok: true, wrappers_ok, started_at, ..Invocation::default() });
            // the request names its script through the marker variable XI (fallback: invocation count)
            let which = req.get_var("XI").and_then(|v| v.first().map(|b| usize::from(b.wrapping_sub(b'0')))).unwrap_or(idx);
            (idx, scripts[which.min(scripts.len() - 1)].clone())
        };
        let log2 = log.clone();
        Box::pin(async move {
            let r = interpret(req, script, log2.clone(), idx).await;
            let mut l = log2.lock().unwrap();
            let inv = &mut l.invocations[idx];
            inv.finished = true;
            inv.returned = Some(match &r {
                Ok(s) => Ok(*s),
                Err(e) => Err(e.kind()),
            });
            r
        })
    })
}

pub const STATUSES: [ExitStatus; 7] = [
    ExitStatus::Complete(0),
    ExitStatus::Complete(1),
    ExitStatus::Complete(u32::MAX),
    ExitStatus::ABORT,
    ExitStatus::Overloaded,
    ExitStatus::UnknownRole,
    ExitStatus::Complete(0x0102_0304),
];

/// A random handler script for a request of the given role.
pub fn gen_script(rng: &mut Rng, role: u16, big_writes: bool) -> Script {
    let mut ops = Vec::new();
    let streams = wire::role_input_streams(role);
    let read_style = rng.below(7);
    for (i, &_s) in streams.iter().enumerate() {
        if i > 0 {
            match rng.below(3) {
                0 => ops.push(Op::SetStream(streams[i])),
                1 => ops.push(Op::AwaitWriteable),
                _ => {
                    ops.push(Op::SetStream(streams[i]));
                }
            }
        }
        match read_style {
            0 => ops.push(Op::ReadToEnd),
            1 => {
                for _ in 0..rng.below(6) {
                    ops.push(Op::Read(*rng.pick(&[0usize, 1, 2, 7, 8, 64, 1000])));
                }
            }
            2 => {
                for _ in 0..rng.below(6) {
                    ops.push(Op::FillConsume(*rng.pick(&[0usize, 1, 5, 100, 100_000])));
                }
            }
            3 => {} // reads nothing
            6 => {
                // echo the stream (possibly after reading a little of it first)
                if rng.chance(1, 3) {
                    ops.push(Op::Read(rng.range(1, 20)));
                }
                ops.push(Op::Echo(if rng.chance(3, 4) { wire::STDOUT } else { wire::STDERR }));
            }
            4 => {
                for _ in 0..rng.below(5) {
                    if rng.chance(1, 2) {
                        ops.push(Op::Read(rng.range(1, 50)));
                    } else if rng.chance(1, 6) {
                        ops.push(Op::FillConsumeOver(rng.range(1, 100_000)));
                    } else {
                        ops.push(Op::FillConsume(rng.range(1, 50)));
                    }
                }
            }
            _ => {
                ops.push(Op::ReadToEnd);
                ops.push(Op::Read(10)); // EOF must persist
                ops.push(Op::FillConsume(3));
            }
        }
        if rng.chance(1, 6) {
            ops.push(Op::Yield);
        }
    }
    if rng.chance(1, 3) {
        ops.push(Op::AwaitWriteable);
    }
    for _ in 0..rng.below(7) {
        let stream = if rng.chance(2, 3) { wire::STDOUT } else { wire::STDERR };
        let len = if big_writes && rng.chance(1, 8) { *rng.pick(&[65535usize, 65536, 70_000]) } else { *rng.pick(&[0usize, 1, 7, 8, 9, 100, 1000]) };
        ops.push(Op::Write(stream, len));
        if rng.chance(1, 5) {
            ops.push(Op::Flush(stream));
        }
    }
    if rng.chance(1, 6) {
        ops.push(Op::TryRead(*rng.pick(&[1usize, 16, 500])));
    }
    Script { ops, propagate: rng.chance(1, 2), status: *rng.pick(&STATUSES) }
}

pub fn script_class(s: &Script) -> u64 {
    let mut h = u64::from(s.propagate);
    for op in &s.ops {
        let k = match op {
            Op::Read(_) => 1u64,
            Op::ReadExact(_) => 2,
            Op::ReadToEnd => 3,
            Op::FillConsume(_) => 4,
            Op::FillConsumeOver(_) => 5,
            Op::SetStream(_) => 6,
            Op::AwaitWriteable => 7,
            Op::Write(s, _) => 8 + u64::from(*s & 1),
            Op::Flush(_) => 10,
            Op::Yield => 11,
            Op::TryRead(_) => 12,
            Op::Echo(_) => 13,
        };
        h |= 1 << k;
    }
    h
}
