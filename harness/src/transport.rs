//! Mock transport halves (futures-io AsyncRead / AsyncWrite) with short reads/writes, injected
//! Pending results, faults, and a byte + event log recorded at the boundary.

use std::collections::VecDeque;
use std::io::{self, IoSlice};
use std::pin::Pin;
use std::sync::{Arc, Mutex};
use std::task::{Context, Poll, Waker};

use futures_util::io::{AsyncRead, AsyncWrite};

use crate::rng::Rng;

/// No workload writes anywhere near this much: reaching it means a write loop that never ends.
const OUTBOX_CAP: usize = 16 << 20;

#[derive(Clone, Copy, Debug, PartialEq, Eq)]
pub enum WriteFault {
    Err(io::ErrorKind),
    Zero,
}

#[derive(Clone, Debug)]
pub struct Behaviour {
    pub read_pending_pct: usize,
    pub read_max: usize,
    pub write_pending_pct: usize,
    pub write_max: usize,
    pub flush_pending_pct: usize,
}

impl Behaviour {
    pub fn ideal() -> Self {
        Self { read_pending_pct: 0, read_max: usize::MAX, write_pending_pct: 0, write_max: usize::MAX, flush_pending_pct: 0 }
    }
    pub fn random(rng: &mut Rng) -> Self {
        Self {
            read_pending_pct: *rng.pick(&[0usize, 0, 25, 50]),
            read_max: *rng.pick(&[1usize, 3, 8, 24, 100, 5000, usize::MAX]),
            write_pending_pct: *rng.pick(&[0usize, 0, 25, 50]),
            write_max: *rng.pick(&[1usize, 3, 7, 8, 9, 30, 5000, usize::MAX]),
            flush_pending_pct: *rng.pick(&[0usize, 30]),
        }
    }
    pub fn class(&self) -> u64 {
        let c = |x: usize| match x {
            0 => 0u64,
            1..=8 => 1,
            9..=100 => 2,
            _ => 3,
        };
        c(self.read_pending_pct) | c(self.read_max.min(1000)) << 2 | c(self.write_pending_pct) << 4 | c(self.write_max.min(1000)) << 6 | c(self.flush_pending_pct) << 8
    }
}

#[derive(Clone, Debug, PartialEq, Eq)]
pub enum Ev {
    /// bytes made available to the server by the peer
    PeerSent(usize),
    PeerEof,
    ReadData(usize),
    ReadPendingNoData,
    ReadPendingGated,
    ReadEof,
    ReadErr,
    Write(usize),
    WritePending,
    WriteErr,
    WriteZero,
    Flush,
    FlushPending,
}

pub struct Pipe {
    pub rng: Rng,
    pub beh: Behaviour,
    // client -> server
    pub inbox: VecDeque<u8>,
    /// total bytes the peer has handed to the transport so far
    pub sent_total: usize,
    /// total bytes the server has read so far
    pub read_total: usize,
    pub eof: bool,
    pub read_waker: Option<Waker>,
    pub read_gated: bool,
    pub read_calls: u64,
    pub read_fault: Option<(u64, io::ErrorKind)>,
    /// faults keep firing on every later call of the same direction (a transport that stays broken)
    pub fault_sticky: bool,
    /// every read returns as much as is available and fits (no random short reads)
    pub whole_reads: bool,
    /// EOF injected once the server has read this many bytes
    pub eof_at: Option<usize>,
    // server -> client
    pub outbox: Vec<u8>,
    pub write_waker: Option<Waker>,
    pub write_gated: bool,
    pub write_calls: u64,
    pub write_fault: Option<(u64, WriteFault)>,
    /// outbox length at the time a write fault fired
    pub write_fault_fired_at: Option<usize>,
    pub bytes_after_write_fault: usize,
    pub log: Vec<(u64, Ev)>,
    pub clock: u64,
    // evidence
    pub cut_in_header: u64,
    pub cut_at_seam: u64,
    pub cut_in_payload: u64,
    pub cut_in_padding: u64,
    pub pending_reads: u64,
    pub pending_writes: u64,
    /// transport calls made after a terminal result (EOF / injected error) was returned
    pub calls_after_terminal: u64,
    /// how often a sticky fault has fired (a task that retries a permanently failing call forever spins)
    pub sticky_fault_hits: u64,
    pub terminal_returned: bool,
}

pub type Shared = Arc<Mutex<Pipe>>;

impl Pipe {
    pub fn new(rng: Rng, beh: Behaviour) -> Shared {
        Arc::new(Mutex::new(Pipe {
            rng,
            beh,
            inbox: VecDeque::new(),
            sent_total: 0,
            read_total: 0,
            eof: false,
            read_waker: None,
            read_gated: false,
            read_calls: 0,
            read_fault: None,
            fault_sticky: false,
            whole_reads: false,
            eof_at: None,
            outbox: Vec::new(),
            write_waker: None,
            write_gated: false,
            write_calls: 0,
            write_fault: None,
            write_fault_fired_at: None,
            bytes_after_write_fault: 0,
            log: Vec::new(),
            clock: 0,
            cut_in_header: 0,
            cut_at_seam: 0,
            cut_in_payload: 0,
            cut_in_padding: 0,
            pending_reads: 0,
            pending_writes: 0,
            calls_after_terminal: 0,
            terminal_returned: false,
            sticky_fault_hits: 0,
        }))
    }

    /// A task that keeps reading after end-of-file (which persists) without ever yielding is
    /// spinning; unwinding out of the poll turns the would-be hang into a reportable event.
    fn note_call(&mut self, write: bool) {
        // only the read side can spin (EOF / a read error is reported again and again); an injected
        // write fault is one-shot, and a handler that swallowed it may legitimately keep writing
        let armed = !write && self.terminal_returned;
        if armed {
            self.calls_after_terminal += 1;
            assert!(self.calls_after_terminal < 2000, "spin: more than 2000 transport reads after end-of-file was reported");
        }
    }

    fn ev(&mut self, e: Ev) {
        self.clock += 1;
        if self.log.len() < 4000 {
            let t = self.clock;
            self.log.push((t, e));
        }
    }

    /// Peer action: make bytes available to the server.
    pub fn peer_send(&mut self, bytes: &[u8]) {
        self.inbox.extend(bytes.iter().copied());
        self.sent_total += bytes.len();
        self.ev(Ev::PeerSent(bytes.len()));
        if !self.read_gated {
            if let Some(w) = self.read_waker.take() {
                w.wake();
            }
        }
    }

    pub fn peer_close(&mut self) {
        self.eof = true;
        self.ev(Ev::PeerEof);
        if !self.read_gated {
            if let Some(w) = self.read_waker.take() {
                w.wake();
            }
        }
    }

    /// Environment action: the reader becomes ready after an injected Pending.
    pub fn reader_ready(&mut self) {
        self.read_gated = false;
        if let Some(w) = self.read_waker.take() {
            w.wake();
        }
    }
    pub fn writer_ready(&mut self) {
        self.write_gated = false;
        if let Some(w) = self.write_waker.take() {
            w.wake();
        }
    }

    /// The server task is suspended waiting for client input and for nothing else.
    pub fn waiting_for_input_only(&self) -> bool {
        self.read_waker.is_some() && !self.read_gated && self.inbox.is_empty() && !self.eof && self.write_waker.is_none()
    }

    fn effective_eof(&self) -> bool {
        self.eof || self.eof_at.map_or(false, |k| self.read_total >= k)
    }
}

pub struct Reader(pub Shared);
pub struct Writer(pub Shared);

impl AsyncRead for Reader {
    fn poll_read(self: Pin<&mut Self>, cx: &mut Context<'_>, buf: &mut [u8]) -> Poll<io::Result<usize>> {
        let mut p = self.0.lock().unwrap_or_else(std::sync::PoisonError::into_inner);
        p.read_calls += 1;
        p.note_call(false);
        if let Some((k, kind)) = p.read_fault {
            if p.read_calls >= k {
                if !p.fault_sticky {
                    // (one-shot: later reads succeed again, so continuing to read is legitimate)
                    p.read_fault = None;
                } else {
                    p.sticky_fault_hits += 1;
                    assert!(p.sticky_fault_hits < 2000, "spin: a permanently failing transport read was retried more than 2000 times");
                }
                p.ev(Ev::ReadErr);
                return Poll::Ready(Err(kind.into()));
            }
        }
        let avail = match p.eof_at {
            Some(k) => p.inbox.len().min(k.saturating_sub(p.read_total)),
            None => p.inbox.len(),
        };
        if avail == 0 {
            if p.effective_eof() {
                p.terminal_returned = true;
                p.ev(Ev::ReadEof);
                return Poll::Ready(Ok(0));
            }
            p.read_waker = Some(cx.waker().clone());
            p.pending_reads += 1;
            p.ev(Ev::ReadPendingNoData);
            return Poll::Pending;
        }
        if buf.is_empty() {
            return Poll::Ready(Ok(0));
        }
        let pct = p.beh.read_pending_pct;
        if pct > 0 && p.rng.below(100) < pct {
            p.read_waker = Some(cx.waker().clone());
            p.read_gated = true;
            p.pending_reads += 1;
            p.ev(Ev::ReadPendingGated);
            return Poll::Pending;
        }
        let cap = buf.len().min(avail).min(p.beh.read_max.max(1));
        let n = if !p.whole_reads && cap > 1 && p.rng.chance(1, 2) { p.rng.range(1, cap) } else { cap };
        for b in buf.iter_mut().take(n) {
            *b = p.inbox.pop_front().expect("available");
        }
        p.read_total += n;
        p.ev(Ev::ReadData(n));
        Poll::Ready(Ok(n))
    }
}

impl Writer {
    fn write_common(&self, cx: &mut Context<'_>, total: usize) -> Result<Poll<io::Result<usize>>, usize> {
        // Ok(poll) = decided without accepting bytes; Err(n) = accept n bytes
        let mut p = self.0.lock().unwrap_or_else(std::sync::PoisonError::into_inner);
        p.write_calls += 1;
        p.note_call(true);
        if let Some((k, f)) = p.write_fault {
            if p.write_calls >= k {
                if !p.fault_sticky {
                    p.write_fault = None;
                } else {
                    p.sticky_fault_hits += 1;
                    assert!(p.sticky_fault_hits < 2000, "spin: a permanently failing transport write was retried more than 2000 times");
                }
                if p.write_fault_fired_at.is_none() {
                    let at = p.outbox.len();
                    p.write_fault_fired_at = Some(at);
                }
                return Ok(match f {
                    WriteFault::Err(kind) => {
                        p.ev(Ev::WriteErr);
                        Poll::Ready(Err(kind.into()))
                    }
                    WriteFault::Zero => {
                        p.ev(Ev::WriteZero);
                        Poll::Ready(Ok(0))
                    }
                });
            }
        }
        if total == 0 {
            return Ok(Poll::Ready(Ok(0)));
        }
        let pct = p.beh.write_pending_pct;
        if pct > 0 && p.rng.below(100) < pct {
            p.write_waker = Some(cx.waker().clone());
            p.write_gated = true;
            p.pending_writes += 1;
            p.ev(Ev::WritePending);
            return Ok(Poll::Pending);
        }
        let cap = total.min(p.beh.write_max.max(1));
        let n = if cap > 1 && p.rng.chance(1, 2) { p.rng.range(1, cap) } else { cap };
        Err(n)
    }
}

impl AsyncWrite for Writer {
    fn poll_write(self: Pin<&mut Self>, cx: &mut Context<'_>, buf: &[u8]) -> Poll<io::Result<usize>> {
        match self.write_common(cx, buf.len()) {
            Ok(p) => p,
            Err(n) => {
                let mut p = self.0.lock().unwrap_or_else(std::sync::PoisonError::into_inner);
                p.outbox.extend_from_slice(&buf[..n]);
                assert!(p.outbox.len() < OUTBOX_CAP, "spin: more than 16 MiB were written to the transport (no scripted connection writes a fifth of that)");
                if p.write_fault_fired_at.is_some() {
                    p.bytes_after_write_fault += n;
                }
                p.ev(Ev::Write(n));
                Poll::Ready(Ok(n))
            }
        }
    }

    fn poll_write_vectored(self: Pin<&mut Self>, cx: &mut Context<'_>, bufs: &[IoSlice<'_>]) -> Poll<io::Result<usize>> {
        let total: usize = bufs.iter().map(|b| b.len()).sum();
        match self.write_common(cx, total) {
            Ok(p) => p,
            Err(n) => {
                let mut p = self.0.lock().unwrap_or_else(std::sync::PoisonError::into_inner);
                let mut left = n;
                for b in bufs {
                    let k = left.min(b.len());
                    p.outbox.extend_from_slice(&b[..k]);
                    assert!(p.outbox.len() < OUTBOX_CAP, "spin: more than 16 MiB were written to the transport (no scripted connection writes a fifth of that)");
                    left -= k;
                    if left == 0 {
                        break;
                    }
                }
                // where did the cut land? (3 slices: header, payload, padding)
                if n < total && bufs.len() == 3 {
                    let (h, pl) = (bufs[0].len(), bufs[1].len());
                    if n < h {
                        p.cut_in_header += 1;
                    } else if n == h {
                        p.cut_at_seam += 1;
                    } else if n < h + pl {
                        p.cut_in_payload += 1;
                    } else if n == h + pl {
                        p.cut_at_seam += 1;
                    } else {
                        p.cut_in_padding += 1;
                    }
                }
                if p.write_fault_fired_at.is_some() {
                    p.bytes_after_write_fault += n;
                }
                p.ev(Ev::Write(n));
                Poll::Ready(Ok(n))
            }
        }
    }

    fn poll_flush(self: Pin<&mut Self>, cx: &mut Context<'_>) -> Poll<io::Result<()>> {
        let mut p = self.0.lock().unwrap_or_else(std::sync::PoisonError::into_inner);
        let pct = p.beh.flush_pending_pct;
        if pct > 0 && p.rng.below(100) < pct {
            p.write_waker = Some(cx.waker().clone());
            p.write_gated = true;
            p.ev(Ev::FlushPending);
            return Poll::Pending;
        }
        p.ev(Ev::Flush);
        Poll::Ready(Ok(()))
    }

    fn poll_close(self: Pin<&mut Self>, _: &mut Context<'_>) -> Poll<io::Result<()>> {
        Poll::Ready(Ok(()))
    }
}
