//! Run context: parallel case runner, evidence accumulation, violation sink, gates.

use std::cell::RefCell;
use std::collections::{BTreeMap, HashSet};
use std::panic::{catch_unwind, AssertUnwindSafe};
use std::path::PathBuf;
use std::sync::atomic::{AtomicBool, AtomicU64, Ordering};
use std::sync::Mutex;
use std::time::Instant;

use crate::json::Json;
use crate::rng::Rng;

#[derive(Clone, Copy, PartialEq, Eq, Debug)]
pub enum Tier {
    Quick,
    Thorough,
}

/// Workload scale. `Full` is the native monitor/release build; `San` is used when the same
/// workloads are re-run under ASan/TSan/valgrind (≈10x slower); `Miri` under the interpreter
/// (≈10^4 x slower).
#[derive(Clone, Copy, PartialEq, Eq, Debug)]
pub enum Scale {
    Full,
    San,
    Miri,
}

#[derive(Default)]
pub struct Local {
    pub evaluations: u64,
    pub counters: BTreeMap<String, u64>,
    pub sigs: HashSet<u64>,
    pub states: HashSet<u64>,
    pub samples: Vec<Json>,
}

impl Local {
    pub fn count(&mut self, k: &str) {
        self.add(k, 1);
    }
    pub fn add(&mut self, k: &str, n: u64) {
        if let Some(c) = self.counters.get_mut(k) {
            *c += n;
        } else {
            self.counters.insert(k.to_string(), n);
        }
    }
    pub fn max(&mut self, k: &str, n: u64) {
        let e = self.counters.entry(k.to_string()).or_insert(0);
        if n > *e {
            *e = n;
        }
    }
    pub fn sig(&mut self, h: u64) {
        self.sigs.insert(h);
    }
    pub fn state(&mut self, h: u64) {
        self.states.insert(h);
    }
    pub fn sample(&mut self, j: Json) {
        if self.samples.len() < 3 {
            self.samples.push(j);
        }
    }
    fn merge(&mut self, o: Local) {
        self.evaluations += o.evaluations;
        for (k, v) in o.counters {
            if k.starts_with("max_") {
                let e = self.counters.entry(k).or_insert(0);
                if v > *e {
                    *e = v;
                }
            } else {
                *self.counters.entry(k).or_insert(0) += v;
            }
        }
        self.sigs.extend(o.sigs);
        self.states.extend(o.states);
        for s in o.samples {
            if self.samples.len() < 6 {
                self.samples.push(s);
            }
        }
    }
}

pub struct Violation {
    pub signature: String,
    pub workload: String,
    pub index: u64,
    pub detail: Json,
}

pub struct Ctx {
    pub prop: &'static str,
    pub seed: u64,
    pub tier: Tier,
    pub scale: Scale,
    pub threads: usize,
    pub out_dir: PathBuf,
    pub replay: Option<(String, u64)>,
    pub verbose: bool,
    pub start: Instant,
    total: Mutex<Local>,
    violations: Mutex<Vec<Violation>>,
    n_viol: AtomicU64,
    pub stop: AtomicBool,
    inconclusive: Mutex<Vec<String>>,
    extra: Mutex<Json>,
}

pub struct Case<'a> {
    pub ctx: &'a Ctx,
    pub workload: &'a str,
    pub index: u64,
    pub rng: Rng,
    pub l: &'a mut Local,
}

impl Case<'_> {
    pub fn violation(&mut self, signature: impl Into<String>, detail: Json) {
        self.ctx.report(Violation {
            signature: signature.into(),
            workload: self.workload.to_string(),
            index: self.index,
            detail,
        });
    }
    pub fn verbose(&self) -> bool {
        self.ctx.verbose
    }
}

/// Per-worker "library call in progress since" timestamps (ms since start, 0 = idle) for the
/// hang watchdog, plus the CPU time the worker thread had consumed when the call began, the
/// thread's CPU-time clock id, and the case each worker is running.
static CALL_START: [AtomicU64; 128] = [const { AtomicU64::new(0) }; 128];
/// clock id + 1 (0 = not registered)
static THREAD_CLOCK: [AtomicU64; 128] = [const { AtomicU64::new(0) }; 128];
static CASE_IDS: Mutex<Vec<(String, u64)>> = Mutex::new(Vec::new());
static NEXT_SLOT: AtomicU64 = AtomicU64::new(0);
static EPOCH: std::sync::OnceLock<Instant> = std::sync::OnceLock::new();

fn now_ms() -> u64 {
    EPOCH.get_or_init(Instant::now).elapsed().as_millis() as u64 + 1
}

/// CPU time of threads (the verdict "this call spins" must not depend on how loaded the machine
/// is: a descheduled or memory-stalled thread accumulates wall-clock time but no CPU time).
#[cfg(all(target_os = "linux", not(miri)))]
mod cputime {
    #[repr(C)]
    struct Timespec {
        tv_sec: i64,
        tv_nsec: i64,
    }
    extern "C" {
        fn pthread_self() -> usize;
        fn pthread_getcpuclockid(thread: usize, clock_id: *mut i32) -> i32;
        fn clock_gettime(clk: i32, ts: *mut Timespec) -> i32;
    }
    /// The calling thread's CPU-time clock id.
    pub fn own_clock() -> Option<i32> {
        let mut cid = 0i32;
        // SAFETY: plain libc calls with a valid out-pointer
        let rc = unsafe { pthread_getcpuclockid(pthread_self(), &mut cid) };
        (rc == 0).then_some(cid)
    }
    pub fn read_ms(cid: i32) -> Option<u64> {
        let mut ts = Timespec { tv_sec: 0, tv_nsec: 0 };
        // SAFETY: plain libc call with a valid out-pointer
        let rc = unsafe { clock_gettime(cid, &mut ts) };
        (rc == 0).then(|| ts.tv_sec as u64 * 1000 + ts.tv_nsec as u64 / 1_000_000)
    }
}
#[cfg(not(all(target_os = "linux", not(miri))))]
mod cputime {
    pub fn own_clock() -> Option<i32> {
        None
    }
    pub fn read_ms(_cid: i32) -> Option<u64> {
        None
    }
}

thread_local! {
    static SLOT: usize = {
        let slot = (NEXT_SLOT.fetch_add(1, Ordering::Relaxed) as usize) % 128;
        if let Some(cid) = cputime::own_clock() {
            THREAD_CLOCK[slot].store(cid as u32 as u64 + 1, Ordering::Relaxed);
        }
        slot
    };
}

fn set_case(workload: &str, index: u64) {
    let slot = SLOT.with(|s| *s);
    let mut g = CASE_IDS.lock().unwrap();
    if g.len() <= slot {
        g.resize(slot + 1, (String::new(), 0));
    }
    g[slot] = (workload.to_string(), index);
}

/// Starts a thread that reports a single library call that has consumed more than `limit_s` seconds
/// of CPU TIME (seven orders of magnitude above the normal cost of a call) as a hang and ends the
/// process. Wall-clock time alone never yields a verdict: on a loaded machine a thread can be
/// descheduled or stalled in the allocator for a long time (seen once: 20 s of wall-clock time for a
/// call that takes microseconds); the outer wall-clock limit in ./check yields "inconclusive".
pub fn start_hang_watchdog(prop: &'static str, seed: u64, out_dir: PathBuf, limit_s: u64) {
    std::thread::spawn(move || {
        // per slot: the call (identified by its start stamp) the watchdog has been watching, and the
        // worker thread's CPU time when the watchdog first saw that call in progress. The workers
        // themselves never read a clock per call (that would be a system call per library call).
        let mut watched = [0u64; 128];
        let mut cpu_base = [0u64; 128];
        loop {
            std::thread::sleep(std::time::Duration::from_millis(500));
            let now = now_ms();
            for (slot, a) in CALL_START.iter().enumerate() {
                let t = a.load(Ordering::Relaxed);
                if t == 0 {
                    watched[slot] = 0;
                    continue;
                }
                let clock = THREAD_CLOCK[slot].load(Ordering::Relaxed);
                let cpu_now = if clock == 0 { None } else { cputime::read_ms((clock - 1) as u32 as i32) };
                if watched[slot] != t {
                    watched[slot] = t;
                    cpu_base[slot] = cpu_now.unwrap_or(0);
                    continue;
                }
                let cpu_used = cpu_now.map(|c| c.saturating_sub(cpu_base[slot]));
                match cpu_used {
                    Some(c) if c <= limit_s * 1000 => continue, // waiting or descheduled, not spinning
                    None if now.saturating_sub(t) <= 30 * limit_s * 1000 => continue, // no CPU clock: be very generous
                    _ => {}
                }
                // (the call may have ended and another begun since `t` was read: re-check)
                if a.load(Ordering::Relaxed) != t {
                    continue;
                }
                let (w, i) = CASE_IDS.lock().unwrap().get(slot).cloned().unwrap_or_default();
                let rdir = out_dir.join("replay");
                let _ = std::fs::create_dir_all(&rdir);
                let path = rdir.join(format!("{prop}-seed{seed}-hang.json"));
                let j = Json::obj()
                    .with("property_id", prop)
                    .with("seed", seed)
                    .with("tier", "quick")
                    .with("workload", w)
                    .with("index", i)
                    .with("signature", "hang")
                    .with("detail", Json::obj().with("problem", format!("a single library call has consumed more than {limit_s} s of CPU time ({cpu_used:?} ms since first observed) without returning")));
                let _ = std::fs::write(&path, j.render() + "\n");
                println!("RAWVIOLATION\t{prop}\thang\t{}", path.display());
                std::process::exit(0);
            }
        }
    });
}

thread_local! {
    static LAST_PANIC: RefCell<Option<String>> = const { RefCell::new(None) };
    static QUIET_PANICS: RefCell<bool> = const { RefCell::new(true) };
}

/// Installs a panic hook that records (message @ location) in a thread-local instead of
/// spamming stderr; `take_panic()` fetches it after a `catch_unwind`.
pub fn install_panic_hook(verbose: bool) {
    std::panic::set_hook(Box::new(move |info| {
        let loc = info.location().map(|l| format!("{}:{}", l.file(), l.line())).unwrap_or_default();
        let msg = if let Some(s) = info.payload().downcast_ref::<&str>() {
            (*s).to_string()
        } else if let Some(s) = info.payload().downcast_ref::<String>() {
            s.clone()
        } else {
            "<non-string panic>".to_string()
        };
        let text = format!("{msg} @ {loc}");
        if verbose {
            eprintln!("[panic] {text}");
        }
        LAST_PANIC.with(|p| *p.borrow_mut() = Some(text));
    }));
}

pub fn take_panic() -> String {
    LAST_PANIC.with(|p| p.borrow_mut().take()).unwrap_or_else(|| "<unknown panic>".into())
}

/// Runs `f`, converting a panic into `Err(description)`.
pub fn guarded<T>(f: impl FnOnce() -> T) -> Result<T, String> {
    let slot = SLOT.with(|s| *s);
    CALL_START[slot].store(now_ms(), Ordering::Relaxed);
    let r = catch_unwind(AssertUnwindSafe(f));
    CALL_START[slot].store(0, Ordering::Relaxed);
    match r {
        Ok(v) => Ok(v),
        Err(_) => Err(take_panic()),
    }
}

/// Marks a library call as in progress for the hang watchdog without catching panics (used by the
/// executor around every task poll). Nested inside `guarded` / another `timed` it changes nothing.
pub fn timed<T>(f: impl FnOnce() -> T) -> T {
    let slot = SLOT.with(|s| *s);
    if CALL_START[slot].load(Ordering::Relaxed) != 0 {
        return f();
    }
    CALL_START[slot].store(now_ms(), Ordering::Relaxed);
    struct Clear(usize);
    impl Drop for Clear {
        fn drop(&mut self) {
            CALL_START[self.0].store(0, Ordering::Relaxed);
        }
    }
    let _clear = Clear(slot);
    f()
}

/// Strips volatile parts (numbers) from a panic description so signatures stay stable.
pub fn panic_signature(p: &str) -> String {
    // keep "message @ file" but drop line numbers and digits in the message
    let (msg, loc) = p.rsplit_once(" @ ").unwrap_or((p, ""));
    let file = loc.rsplit_once(':').map_or(loc, |x| x.0);
    let file = file.rsplit('/').next().unwrap_or(file);
    let msg: String = msg.chars().take(60).map(|c| if c.is_ascii_digit() { '#' } else { c }).collect();
    format!("panic[{file}]: {msg}")
}

impl Ctx {
    #[allow(clippy::too_many_arguments)]
    pub fn new(
        prop: &'static str,
        seed: u64,
        tier: Tier,
        scale: Scale,
        threads: usize,
        out_dir: PathBuf,
        replay: Option<(String, u64)>,
        verbose: bool,
    ) -> Self {
        Self {
            prop,
            seed,
            tier,
            scale,
            threads,
            out_dir,
            replay,
            verbose,
            start: Instant::now(),
            total: Mutex::new(Local::default()),
            violations: Mutex::new(Vec::new()),
            n_viol: AtomicU64::new(0),
            stop: AtomicBool::new(false),
            inconclusive: Mutex::new(Vec::new()),
            extra: Mutex::new(Json::obj()),
        }
    }

    pub fn thorough(&self) -> bool {
        self.tier == Tier::Thorough
    }

    /// Picks a workload size: (quick, thorough) for the native build, scaled down for
    /// sanitizer / Miri re-runs.
    pub fn size(&self, quick: u64, thorough: u64) -> u64 {
        let base = if self.thorough() { thorough } else { quick };
        match self.scale {
            Scale::Full => base,
            Scale::San => (quick / 3).max(8),
            Scale::Miri => (quick / 2000).clamp(4, 60),
        }
    }

    /// Size of a fixed (seed-independent) directed case list: full natively, reduced under
    /// sanitizers / Miri (observation gates are only enforced for the native full-scale run).
    pub fn dn(&self, n: u64) -> u64 {
        match self.scale {
            Scale::Full => n,
            Scale::San => (n / 2).max(4).min(n),
            Scale::Miri => n.min(5),
        }
    }

    /// Like `size`, with an explicit case count for the Miri re-run.
    pub fn size3(&self, quick: u64, thorough: u64, miri: u64) -> u64 {
        if self.scale == Scale::Miri {
            miri
        } else {
            self.size(quick, thorough)
        }
    }
    pub fn miri(&self) -> bool {
        self.scale == Scale::Miri
    }

    pub fn report(&self, v: Violation) {
        // (a few hundred violating cases say as much as a few thousand: stop exploring early)
        if self.n_viol.fetch_add(1, Ordering::Relaxed) + 1 >= 200 {
            self.stop.store(true, Ordering::Relaxed);
        }
        let mut g = self.violations.lock().unwrap();
        let same = g.iter().filter(|x| x.signature == v.signature).count();
        if same < 2 && g.len() < 12 {
            g.push(v);
        }
        if g.len() >= 12 {
            self.stop.store(true, Ordering::Relaxed);
        }
    }

    pub fn inconclusive(&self, why: impl Into<String>) {
        self.inconclusive.lock().unwrap().push(why.into());
    }

    pub fn extra(&self, k: &str, v: impl Into<Json>) {
        self.extra.lock().unwrap().set(k, v);
    }

    pub fn merge(&self, l: Local) {
        self.total.lock().unwrap().merge(l);
    }

    pub fn peek(&self, f: impl FnOnce(&Local)) {
        f(&self.total.lock().unwrap());
    }

    pub fn counter(&self, k: &str) -> u64 {
        self.total.lock().unwrap().counters.get(k).copied().unwrap_or(0)
    }

    /// Observation gate: the run is INCONCLUSIVE unless event `k` was seen at least `min` times.
    /// Gates are only enforced for the native full-scale run (sanitizer re-runs are reduced).
    pub fn gate(&self, k: &str, min: u64) {
        if self.replay.is_some() || self.scale != Scale::Full {
            return;
        }
        let got = self.counter(k);
        if got < min {
            self.inconclusive(format!("observation gate '{k}': saw {got}, need >= {min}"));
        }
    }

    /// Runs cases `0..n` of `workload` across worker threads. Each case gets its own RNG
    /// derived from (seed, workload, index). A panic escaping a case body is reported as a
    /// violation (the property checks wrap library calls themselves where a panic is an
    /// expected, documented outcome).
    pub fn run_cases<F>(&self, workload: &str, n: u64, f: F)
    where
        F: Fn(&mut Case) + Sync,
    {
        self.run_cases_seeded(workload, n, true, f);
    }

    /// Like `run_cases`, but for fixed/enumerated case lists whose content does not depend on
    /// VERIF_SEED (the RNG is still provided, derived from a constant).
    pub fn run_fixed<F>(&self, workload: &str, n: u64, f: F)
    where
        F: Fn(&mut Case) + Sync,
    {
        self.run_cases_seeded(workload, n, false, f);
    }

    /// Runs the cases one after the other on the calling thread (for workloads that spawn their own threads).
    pub fn run_cases_serial<F>(&self, workload: &str, n: u64, f: F)
    where
        F: Fn(&mut Case) + Sync,
    {
        self.run_cases_opt(workload, n, true, true, f);
    }

    fn run_cases_seeded<F>(&self, workload: &str, n: u64, seeded: bool, f: F)
    where
        F: Fn(&mut Case) + Sync,
    {
        self.run_cases_opt(workload, n, seeded, false, f);
    }

    fn run_cases_opt<F>(&self, workload: &str, n: u64, seeded: bool, serial: bool, f: F)
    where
        F: Fn(&mut Case) + Sync,
    {
        let seed = if seeded { self.seed } else { 0x5eed_f1ed };
        let run_one = |idx: u64, l: &mut Local| {
            let rng = Rng::for_case(seed, workload, idx);
            set_case(workload, idx);
            l.evaluations += 1;
            let mut case = Case { ctx: self, workload, index: idx, rng, l };
            let r = catch_unwind(AssertUnwindSafe(|| f(&mut case)));
            if r.is_err() {
                let p = take_panic();
                self.report(Violation {
                    signature: panic_signature(&p),
                    workload: workload.to_string(),
                    index: idx,
                    detail: Json::obj().with("escaped_panic", p),
                });
            }
        };

        if let Some((w, idx)) = &self.replay {
            if w == workload {
                let mut l = Local::default();
                run_one(*idx, &mut l);
                self.merge(l);
            }
            return;
        }

        let next = AtomicU64::new(0);
        let batch: u64 = (n / (self.threads.max(1) as u64 * 4)).clamp(1, 8);
        let threads = if serial { 1 } else { self.threads.max(1).min(n.max(1) as usize) };
        if threads <= 1 {
            let mut l = Local::default();
            for idx in 0..n {
                if self.stop.load(Ordering::Relaxed) {
                    break;
                }
                run_one(idx, &mut l);
            }
            self.merge(l);
            return;
        }
        std::thread::scope(|s| {
            for _ in 0..threads {
                s.spawn(|| {
                    let mut l = Local::default();
                    loop {
                        if self.stop.load(Ordering::Relaxed) {
                            break;
                        }
                        // grab small batches to reduce contention
                        let start = next.fetch_add(batch, Ordering::Relaxed);
                        if start >= n {
                            break;
                        }
                        for idx in start..(start + batch).min(n) {
                            run_one(idx, &mut l);
                        }
                    }
                    self.merge(l);
                });
            }
        });
    }

    /// Writes the evidence file, replay files and RAWVIOLATION lines. Returns the exit code:
    /// 0 = ran (violations, if any, are on stdout for the orchestrator to classify),
    /// 2 = inconclusive.
    pub fn finish(
        &self,
        level: &str,
        rule: &str,
        assumptions: &[&str],
        exhaustive: bool,
        evidence_path: Option<&PathBuf>,
    ) -> i32 {
        let total = std::mem::take(&mut *self.total.lock().unwrap());
        let viols = std::mem::take(&mut *self.violations.lock().unwrap());
        let n_viol = self.n_viol.load(Ordering::Relaxed);
        let inconc = self.inconclusive.lock().unwrap().clone();

        let mut cov = Json::obj();
        cov.set("evaluations", total.evaluations);
        cov.set("distinct_nontrivial", total.sigs.len());
        cov.set("rule", rule);
        cov.set("exhaustive", exhaustive);
        if !total.states.is_empty() {
            cov.set("distinct_states_observed", total.states.len());
        }
        let mut counters = Json::obj();
        for (k, v) in &total.counters {
            counters.set(k, *v);
        }
        cov.set("observed", counters);
        cov.set("log_statements_evaluated", crate::tracesub::EVENTS.load(Ordering::Relaxed));
        let mut samples = total.samples.clone();
        if samples.is_empty() {
            samples.push(Json::Str("(no sample recorded)".into()));
        }
        cov.set("samples", Json::Arr(samples));
        if let Json::Obj(m) = &*self.extra.lock().unwrap() {
            for (k, v) in m {
                cov.set(k, v.clone());
            }
        }
        if !inconc.is_empty() {
            cov.set("inconclusive", inconc.clone());
        }
        let (evals_final, distinct_final) = match &cov {
            Json::Obj(m) => (
                if let Some(Json::Int(i)) = m.get("evaluations") { *i } else { 0 },
                if let Some(Json::Int(i)) = m.get("distinct_nontrivial") { *i } else { 0 },
            ),
            _ => (0, 0),
        };

        let mut ev = Json::obj();
        ev.set("property_id", self.prop);
        ev.set("tier", if self.thorough() { "thorough" } else { "quick" });
        ev.set("seed", self.seed);
        ev.set("level", level);
        ev.set("coverage", cov);
        ev.set("assumptions", assumptions.iter().map(|s| Json::from(*s)).collect::<Vec<_>>());
        ev.set("wall_s", self.start.elapsed().as_secs_f64());
        ev.set("violations", n_viol);
        ev.set("build", format!("{:?}", self.scale));


        if let Some(p) = evidence_path {
            if let Some(dir) = p.parent() {
                let _ = std::fs::create_dir_all(dir);
            }
            if let Err(e) = std::fs::write(p, ev.render() + "\n") {
                eprintln!("cannot write evidence {}: {e}", p.display());
            }
        }

        let rdir = self.out_dir.join("replay");
        let _ = std::fs::create_dir_all(&rdir);
        if let Ok(rd) = std::fs::read_dir(&rdir) {
            // stale replays of earlier runs of this property would be confusing
            let prefix = format!("{}-seed{}-", self.prop, self.seed);
            for e in rd.flatten() {
                if e.file_name().to_string_lossy().starts_with(&prefix) && self.replay.is_none() {
                    let _ = std::fs::remove_file(e.path());
                }
            }
        }
        for (i, v) in viols.iter().enumerate() {
            let path = rdir.join(format!("{}-seed{}-{}.json", self.prop, self.seed, i));
            let j = Json::obj()
                .with("property_id", self.prop)
                .with("seed", self.seed)
                .with("tier", if self.thorough() { "thorough" } else { "quick" })
                .with("workload", v.workload.clone())
                .with("index", v.index)
                .with("signature", v.signature.clone())
                .with("detail", v.detail.clone());
            let _ = std::fs::write(&path, j.render() + "\n");
            println!("RAWVIOLATION\t{}\t{}\t{}", self.prop, v.signature.replace(['\t', '\n'], " "), path.display());
        }
        println!(
            "SUMMARY property={} evaluations={} distinct_nontrivial={} violations={} wall_s={:.1}",
            self.prop,
            evals_final,
            distinct_final,
            n_viol,
            self.start.elapsed().as_secs_f64()
        );
        if n_viol == 0 && !inconc.is_empty() {
            for w in &inconc {
                println!("INCONCLUSIVE property={} reason={}", self.prop, w);
            }
            return 2;
        }
        0
    }
}
