//! Drivers for `request::Parser` and `stream::Parser` with explicit caller schedules.
//! Documented preconditions are respected by construction; every library call goes through
//! `catch_unwind`; after every action the visible buffers are compared with shadow copies.

use std::collections::BTreeMap;

use fastcgi_server::parser::{self, request, stream};
use fastcgi_server::protocol::RecordType;
use fastcgi_server::Config;

use crate::ev::guarded;
use crate::rng::Rng;
use crate::spec::StreamModel;

// ------------------------------------------------------------------------------------------
// chunking families

#[derive(Clone, Debug)]
pub enum Chunking {
    OneByte,
    Fill,
    Random(usize),
    Suite,
    /// reads end exactly at the given absolute offsets (sorted), then fill
    Surgical(Vec<usize>, usize),
}

impl Chunking {
    pub fn next(&mut self, rng: &mut Rng, fed: usize, space: usize, remaining: usize) -> usize {
        let cap = space.min(remaining);
        if cap == 0 {
            return 0;
        }
        match self {
            Chunking::OneByte => 1,
            Chunking::Fill => cap,
            Chunking::Random(k) => rng.range(1, (*k).max(1).min(cap)),
            Chunking::Suite => rng.range(50, 256).min(cap),
            Chunking::Surgical(t, i) => {
                while *i < t.len() && t[*i] <= fed {
                    *i += 1;
                }
                if *i < t.len() {
                    (t[*i] - fed).min(cap)
                } else {
                    cap
                }
            }
        }
    }
    pub fn family(&self) -> &'static str {
        match self {
            Chunking::OneByte => "1-byte",
            Chunking::Fill => "fill",
            Chunking::Random(_) => "random",
            Chunking::Suite => "50..256",
            Chunking::Surgical(..) => "surgical",
        }
    }
}

/// Picks a chunking family; `structural` are offsets (record starts, header ends, payload ends)
/// from which surgical read boundaries are derived (one byte before / at / after).
pub fn pick_chunking(rng: &mut Rng, structural: &[usize]) -> Chunking {
    match rng.below(6) {
        0 => Chunking::OneByte,
        1 => Chunking::Fill,
        2 => Chunking::Random(*rng.pick(&[2usize, 7, 16, 100, 1000, 10000])),
        3 => Chunking::Suite,
        4 if !structural.is_empty() => {
            let mut t = Vec::new();
            for &o in structural {
                for d in [-1isize, 0, 1] {
                    if rng.chance(1, 3) {
                        let x = o as isize + d;
                        if x > 0 {
                            t.push(x as usize);
                        }
                    }
                }
            }
            t.sort_unstable();
            t.dedup();
            Chunking::Surgical(t, 0)
        }
        _ => Chunking::Random(64),
    }
}

pub fn all_chunkings(rng: &mut Rng, structural: &[usize]) -> Vec<Chunking> {
    let mut t = Vec::new();
    for &o in structural {
        for d in [-1isize, 0, 1] {
            let x = o as isize + d;
            if x > 0 && rng.chance(1, 2) {
                t.push(x as usize);
            }
        }
    }
    t.sort_unstable();
    t.dedup();
    vec![Chunking::Fill, Chunking::OneByte, Chunking::Random(*rng.pick(&[3usize, 16, 200])), Chunking::Suite, Chunking::Surgical(t, 0)]
}

/// Structural offsets of a record stream: for every record its start, header end, payload end, end.
pub fn structural_offsets(bytes: &[u8]) -> Vec<usize> {
    let (recs, _) = crate::wire::scan(bytes);
    let mut v = Vec::new();
    for r in recs {
        v.extend([r.off, r.off + 8, r.content.end, r.end]);
    }
    v.sort_unstable();
    v.dedup();
    v
}

// ------------------------------------------------------------------------------------------
// request view

#[derive(Clone, Debug, PartialEq, Eq)]
pub struct ReqView {
    pub id: u16,
    pub role: u16,
    pub flags: u8,
    pub env: BTreeMap<String, Vec<u8>>,
    pub env_len: usize,
}

pub fn view(req: &parser::Request) -> ReqView {
    let mut env = BTreeMap::new();
    for (k, v) in req.env_iter() {
        let key: &str = k.as_ref();
        env.insert(key.to_string(), v.to_vec());
    }
    ReqView { id: req.request_id.get(), role: u16::from(req.role), flags: req.flags.bits(), env, env_len: req.env_len() }
}

pub fn err_kind(e: &parser::Error) -> String {
    match e {
        parser::Error::Paniced => "Paniced".into(),
        parser::Error::StuckOnInput => "StuckOnInput".into(),
        parser::Error::Interrupted => "Interrupted".into(),
        parser::Error::UnknownVersion(v) => format!("UnknownVersion({v})"),
        parser::Error::InvalidRequestLen(l) => format!("InvalidRequestLen({l})"),
        parser::Error::NullRequest => "NullRequest".into(),
        parser::Error::AbortRequest => "AbortRequest".into(),
        parser::Error::Protocol(p) => format!("Protocol({p})"),
        other => format!("Other({other})"),
    }
}

// ------------------------------------------------------------------------------------------
// request parser driver

pub struct ReqRun<'c> {
    pub parser: Option<request::Parser<'c>>,
    pub done: bool,
    /// bytes fed before the call that first reported done
    pub fed_before_done: usize,
    /// bytes fed in total (absolute offset into the input)
    pub fed: usize,
    pub out: Vec<u8>,
    pub calls: u64,
    /// number of calls whose read filled the input buffer exactly
    pub exact_fills: u64,
    pub problems: Vec<(String, String)>,
}

/// Feeds `bytes[start..limit]` to `parser` according to `chunk` until it reports done or the
/// input is exhausted. `initial_parse0`: start with `parse(0)` (for parsers handed over with
/// buffered look-ahead).
pub fn drive_request<'c>(
    mut parser: request::Parser<'c>,
    bytes: &[u8],
    start: usize,
    limit: usize,
    chunk: &mut Chunking,
    rng: &mut Rng,
    initial_parse0: bool,
) -> ReqRun<'c> {
    let mut run = ReqRun { parser: None, done: false, fed_before_done: start, fed: start, out: Vec::new(), calls: 0, exact_fills: 0, problems: Vec::new() };
    let mut first = initial_parse0;
    loop {
        let space = parser.input_buffer().len();
        let n = if first { 0 } else { chunk.next(rng, run.fed, space, limit - run.fed) };
        if !first && n == 0 {
            break;
        }
        first = false;
        let before = run.fed;
        parser.input_buffer()[..n].copy_from_slice(&bytes[run.fed..run.fed + n]);
        run.fed += n;
        if n == space && n > 0 {
            run.exact_fills += 1;
        }
        run.calls += 1;
        let r = guarded(|| {
            let y = parser.parse(n);
            (y.done, y.output.to_vec())
        });
        match r {
            Ok((done, out)) => {
                run.out.extend_from_slice(&out);
                if done {
                    run.done = true;
                    run.fed_before_done = before;
                    break;
                }
                if parser.input_buffer().is_empty() {
                    run.problems.push(("not-done-but-no-input-space".into(), format!("after feeding {} bytes parse() returned done=false but input_buffer() is empty", run.fed - start)));
                    break;
                }
            }
            Err(p) => {
                run.problems.push((crate::ev::panic_signature(&p), format!("request::Parser::parse panicked after {} bytes: {p}", run.fed - start)));
                break;
            }
        }
    }
    run.parser = Some(parser);
    run
}

/// After `done`: feeds up to `max_calls` further chunks (legal; the bytes simply join the
/// unread remainder). Returns Err(description) if a call misbehaves.
pub fn feed_after_done(run: &mut ReqRun, bytes: &[u8], limit: usize, rng: &mut Rng, max_calls: usize) -> Result<usize, String> {
    let Some(parser) = run.parser.as_mut() else { return Ok(0) };
    let mut fed_extra = 0;
    for _ in 0..max_calls {
        let space = parser.input_buffer().len();
        let n = space.min(limit - run.fed).min(1 + rng.below(40));
        if n == 0 {
            break;
        }
        parser.input_buffer()[..n].copy_from_slice(&bytes[run.fed..run.fed + n]);
        run.fed += n;
        fed_extra += n;
        match guarded(|| {
            let y = parser.parse(n);
            (y.done, y.output.len())
        }) {
            Ok((true, 0)) => {}
            Ok((d, o)) => return Err(format!("parse({n}) after done returned done={d} with {o} output bytes")),
            Err(p) => return Err(format!("parse({n}) after done panicked: {p}")),
        }
    }
    Ok(fed_extra)
}

// ------------------------------------------------------------------------------------------
// stream parser driver

pub fn rt(t: u8) -> RecordType {
    RecordType::try_from(t).expect("known record type")
}

#[derive(Clone, Debug, Default)]
pub struct SCounters {
    pub parse_calls: u64,
    pub dest_deliveries: u64,
    pub buffer_deliveries: u64,
    pub compress_calls: u64,
    pub compress_freed: u64,
    pub partial_consumes: u64,
    pub partial_output_consumes: u64,
    pub held_back: u64,
    pub wedges: u64,
    pub exact_fills: u64,
    pub zero_dest_calls: u64,
    pub budget_exhausted: u64,
    pub tidy_before_advance: u64,
}

#[derive(Clone, Debug)]
pub struct Epoch {
    pub stream: Option<u8>,
    pub delivered: Vec<u8>,
    pub end_seen: bool,
    /// absolute input offset fed when this epoch began
    pub began_at_fed: usize,
}

#[derive(Clone, Copy, Debug)]
pub struct PStatus {
    pub stream: usize,
    pub stream_end: bool,
    pub output: usize,
}

pub struct SDriver<'c, 'b> {
    pub p: Option<stream::Parser<'c>>,
    pub bytes: &'b [u8],
    pub fed: usize,
    pub limit: usize,
    pub shadow_stream: Vec<u8>,
    pub shadow_out: Vec<u8>,
    pub out_all: Vec<u8>,
    pub epochs: Vec<Epoch>,
    pub err: Option<String>,
    pub problems: Vec<(String, String)>,
    pub trace: Vec<String>,
    pub cnt: SCounters,
    pub states: Vec<u64>,
}

impl<'c, 'b> SDriver<'c, 'b> {
    pub fn new(p: stream::Parser<'c>, bytes: &'b [u8], fed: usize, limit: usize) -> Self {
        let active = p.active_stream().map(u8::from);
        let mut d = Self {
            p: Some(p),
            bytes,
            fed,
            limit,
            shadow_stream: Vec::new(),
            shadow_out: Vec::new(),
            out_all: Vec::new(),
            epochs: vec![Epoch { stream: active, delivered: Vec::new(), end_seen: false, began_at_fed: fed }],
            err: None,
            problems: Vec::new(),
            trace: Vec::new(),
            cnt: SCounters::default(),
            states: Vec::new(),
        };
        d.verify("new");
        d
    }

    fn par(&mut self) -> &mut stream::Parser<'c> {
        self.p.as_mut().expect("parser present")
    }
    pub fn parser(&self) -> &stream::Parser<'c> {
        self.p.as_ref().expect("parser present")
    }

    pub fn problem(&mut self, sig: &str, msg: String) {
        if self.problems.len() < 4 {
            self.problems.push((sig.to_string(), msg));
        }
    }
    fn log(&mut self, s: String) {
        if self.trace.len() < 400 {
            self.trace.push(s);
        }
    }

    pub fn active(&self) -> Option<u8> {
        self.parser().active_stream().map(u8::from)
    }
    pub fn space(&mut self) -> usize {
        self.par().input_buffer().len()
    }
    pub fn remaining(&self) -> usize {
        self.limit - self.fed
    }
    pub fn ok(&self) -> bool {
        self.problems.is_empty()
    }
    pub fn cur(&mut self) -> &mut Epoch {
        self.epochs.last_mut().expect("epoch")
    }

    /// Compares the visible buffers with the shadow copies.
    pub fn verify(&mut self, after: &str) {
        let (sb, ob) = {
            let p = self.parser();
            (p.stream_buffer() == &self.shadow_stream[..], p.output_buffer() == &self.shadow_out[..])
        };
        if !sb {
            let (a, b) = (self.parser().stream_buffer().len(), self.shadow_stream.len());
            self.problem("stream-buffer-changed", format!("after {after}: stream_buffer() ({a} bytes) differs from the bytes delivered into it and not yet consumed ({b} bytes)"));
        }
        if !ob {
            let (a, b) = (self.parser().output_buffer().len(), self.shadow_out.len());
            self.problem("output-buffer-changed", format!("after {after}: output_buffer() ({a} bytes) differs from the unconsumed output produced so far ({b} bytes)"));
        }
    }

    /// feed `n` bytes and parse, delivering into a caller buffer of `dest` bytes or (None) into
    /// the internal stream buffer.
    pub fn feed_parse(&mut self, n: usize, dest: Option<usize>) -> Option<PStatus> {
        assert!(self.err.is_none() || n == 0 || true);
        let space = self.space();
        assert!(n <= space && n <= self.remaining(), "driver bug: feeding more than fits");
        if dest.is_some() && !self.parser().stream_buffer().is_empty() {
            panic!("driver bug: dest=Some with non-empty stream buffer");
        }
        let (fed, bytes) = (self.fed, self.bytes);
        self.par().input_buffer()[..n].copy_from_slice(&bytes[fed..fed + n]);
        self.fed += n;
        if n == space && n > 0 {
            self.cnt.exact_fills += 1;
        }
        if dest == Some(0) {
            self.cnt.zero_dest_calls += 1;
        }
        self.cnt.parse_calls += 1;
        let mut dbuf = vec![0xEEu8; dest.unwrap_or(0)];
        let p = self.p.as_mut().expect("parser");
        let r = guarded(|| match dest {
            Some(_) => p.parse(n, Some(&mut dbuf[..])),
            None => p.parse(n, None),
        });
        self.log(format!("parse({n},{})", dest.map_or("None".to_string(), |d| format!("Some[{d}]"))));
        match r {
            Err(pmsg) => {
                self.problem(&crate::ev::panic_signature(&pmsg), format!("stream::Parser::parse panicked: {pmsg}"));
                self.err = Some("panic".into());
                None
            }
            Ok(Err(e)) => {
                let k = err_kind(&e);
                if let Some(prev) = &self.err {
                    if *prev != k {
                        let prev = prev.clone();
                        self.problem("error-not-sticky", format!("parse failed with {prev}, a later call failed with {k}"));
                    }
                }
                self.err = Some(k);
                // bytes appended to the internal buffers before the failing header are visible
                let (sbuf, obuf) = {
                    let p = self.parser();
                    (p.stream_buffer().to_vec(), p.output_buffer().to_vec())
                };
                if sbuf.starts_with(&self.shadow_stream) {
                    let extra = sbuf[self.shadow_stream.len()..].to_vec();
                    self.cur().delivered.extend_from_slice(&extra);
                    self.shadow_stream = sbuf;
                } else {
                    self.problem("stream-buffer-changed", "after a failing parse() the stream buffer no longer starts with its previous contents".into());
                }
                if obuf.starts_with(&self.shadow_out) {
                    self.out_all.extend_from_slice(&obuf[self.shadow_out.len()..]);
                    self.shadow_out = obuf;
                } else {
                    self.problem("output-buffer-changed", "after a failing parse() the output buffer no longer starts with its previous contents".into());
                }
                None
            }
            Ok(Ok(st)) => {
                if let Some(prev) = self.err.clone() {
                    self.problem("error-not-sticky", format!("parse failed with {prev} but a later call succeeded"));
                }
                let st = PStatus { stream: st.stream, stream_end: st.stream_end, output: st.output };
                match dest {
                    Some(len) => {
                        if st.stream > len {
                            self.problem("status-stream-exceeds-dest", format!("Status.stream = {} for a {len}-byte dest", st.stream));
                        } else {
                            if dbuf[st.stream..].iter().any(|&b| b != 0xEE) {
                                self.problem("dest-written-beyond-reported", format!("dest modified beyond the {} bytes reported", st.stream));
                            }
                            let got = dbuf[..st.stream].to_vec();
                            self.cur().delivered.extend_from_slice(&got);
                            if st.stream > 0 {
                                self.cnt.dest_deliveries += 1;
                            }
                        }
                    }
                    None => {
                        let sbuf = self.parser().stream_buffer().to_vec();
                        if sbuf.len() != self.shadow_stream.len() + st.stream || !sbuf.starts_with(&self.shadow_stream) {
                            self.problem(
                                "status-stream-mismatch",
                                format!("Status.stream = {} but stream_buffer() went from {} to {} bytes (or its old contents changed)", st.stream, self.shadow_stream.len(), sbuf.len()),
                            );
                        } else {
                            let extra = sbuf[self.shadow_stream.len()..].to_vec();
                            self.cur().delivered.extend_from_slice(&extra);
                            if st.stream > 0 {
                                self.cnt.buffer_deliveries += 1;
                            }
                        }
                        self.shadow_stream = sbuf;
                    }
                }
                let obuf = self.parser().output_buffer().to_vec();
                if obuf.len() != self.shadow_out.len() + st.output || !obuf.starts_with(&self.shadow_out) {
                    self.problem(
                        "status-output-mismatch",
                        format!("Status.output = {} but output_buffer() went from {} to {} bytes (or its old contents changed)", st.output, self.shadow_out.len(), obuf.len()),
                    );
                } else {
                    self.out_all.extend_from_slice(&obuf[self.shadow_out.len()..]);
                }
                self.shadow_out = obuf;
                let active_none = self.active().is_none();
                let e = self.cur();
                if e.end_seen && !st.stream_end {
                    self.problem("stream-end-not-persistent", "stream_end was reported and a later call (without set_stream) reports it false".into());
                } else if st.stream_end {
                    e.end_seen = true;
                }
                if active_none && (!st.stream_end || st.stream != 0) {
                    self.problem("none-stream-delivers", format!("active stream is None but parse reported stream={} stream_end={}", st.stream, st.stream_end));
                }
                self.verify("parse");
                self.note_state();
                Some(st)
            }
        }
    }

    pub fn consume_stream(&mut self, k: usize) {
        let len = self.shadow_stream.len();
        let p = self.p.as_mut().expect("parser");
        if let Err(pm) = guarded(|| p.consume_stream(k)) {
            self.problem(&crate::ev::panic_signature(&pm), format!("consume_stream({k}) panicked: {pm}"));
            self.err = Some("panic".into());
            return;
        }
        self.shadow_stream.drain(..k.min(len));
        if k < len {
            self.cnt.partial_consumes += 1;
        }
        self.log(format!("consume_stream({k})"));
        self.verify("consume_stream");
    }

    pub fn compress(&mut self) {
        let before = self.space();
        let p = self.p.as_mut().expect("parser");
        if let Err(pm) = guarded(|| p.compress()) {
            self.problem(&crate::ev::panic_signature(&pm), format!("compress() panicked: {pm}"));
            self.err = Some("panic".into());
            return;
        }
        let after = self.space();
        self.cnt.compress_calls += 1;
        if after < before {
            self.problem("compress-shrinks-input", format!("compress() reduced input space from {before} to {after}"));
        }
        if after > before {
            self.cnt.compress_freed += 1;
        }
        self.log("compress".into());
        self.verify("compress");
    }

    pub fn consume_output(&mut self, k: usize) {
        let len = self.shadow_out.len();
        let p = self.p.as_mut().expect("parser");
        if let Err(pm) = guarded(|| p.consume_output(k)) {
            self.problem(&crate::ev::panic_signature(&pm), format!("consume_output({k}) panicked: {pm}"));
            self.err = Some("panic".into());
            return;
        }
        self.shadow_out.drain(..k.min(len));
        if k < len && k > 0 {
            self.cnt.partial_output_consumes += 1;
        }
        self.log(format!("consume_output({k})"));
        self.verify("consume_output");
    }

    /// Returns Ok(changed) or Err(()) if the parser rejected the selection.
    pub fn set_stream(&mut self, next: Option<u8>) -> Result<bool, ()> {
        let before = self.active();
        let p = self.p.as_mut().expect("parser");
        let r = guarded(|| p.set_stream(next.map(rt)));
        self.log(format!("set_stream({next:?})"));
        match r {
            Err(pm) => {
                self.problem(&crate::ev::panic_signature(&pm), format!("set_stream({next:?}) panicked: {pm}"));
                self.err = Some("panic".into());
                Err(())
            }
            Ok(Err(_)) => {
                if self.active() != before {
                    self.problem("rejected-set-stream-changed-state", format!("set_stream({next:?}) was rejected but active_stream changed from {before:?} to {:?}", self.active()));
                }
                self.verify("rejected set_stream");
                Err(())
            }
            Ok(Ok(())) => {
                if self.active() != next {
                    self.problem("set-stream-not-applied", format!("set_stream({next:?}) returned Ok but active_stream() = {:?}", self.active()));
                }
                let changed = before != next;
                if changed {
                    self.shadow_stream.clear();
                    let fed = self.fed;
                    self.epochs.push(Epoch { stream: next, delivered: Vec::new(), end_seen: false, began_at_fed: fed });
                }
                self.verify("set_stream");
                Ok(changed)
            }
        }
    }

    fn note_state(&mut self) {
        if self.states.len() >= 64 {
            return;
        }
        let p = self.parser();
        let sb = p.stream_buffer().len();
        let class = |n: usize| match n {
            0 => 0u64,
            1..=7 => 1,
            8..=63 => 2,
            64..=1023 => 3,
            _ => 4,
        };
        let active = p.active_stream().map_or(0, |t| u64::from(u8::from(t)));
        let h = class(sb) | (u64::from(p.is_record_boundary()) << 3) | (active << 4) | (class(p.output_buffer().len()) << 8);
        let free0 = u64::from(self.p.as_mut().expect("p").input_buffer().is_empty());
        let h = h | (free0 << 12);
        if !self.states.contains(&h) {
            self.states.push(h);
        }
    }

    /// Non-destructive probe of the unread remainder: `clone().into_input()`.
    /// Returns Some(absolute offset where the unread suffix starts) if at a record boundary.
    pub fn probe_leftover(&mut self) -> Option<usize> {
        let p = self.parser().clone();
        let at_boundary = p.is_record_boundary();
        let r = guarded(move || p.into_input());
        match r {
            Err(pm) => {
                self.problem(&crate::ev::panic_signature(&pm), format!("into_input panicked: {pm}"));
                None
            }
            Ok(Err(e)) => {
                if !at_boundary && self.shadow_out.is_empty() {
                    // the other conversion must refuse as well
                    let p2 = self.parser().clone();
                    match guarded(move || p2.into_request_parser().map(|_| ())) {
                        Ok(Err(parser::Error::Interrupted)) => {}
                        Ok(other) => self.problem("into-request-parser-midrecord", format!("into_request_parser() off a record boundary returned {:?}", other.map_err(|e| err_kind(&e)))),
                        Err(pm) => self.problem(&crate::ev::panic_signature(&pm), format!("into_request_parser panicked: {pm}")),
                    }
                }
                if at_boundary {
                    self.problem("into-input-rejects-boundary", format!("is_record_boundary() is true but into_input() failed: {}", err_kind(&e)));
                } else if !matches!(e, parser::Error::Interrupted) {
                    self.problem("into-input-wrong-error", format!("into_input() off a record boundary returned {}", err_kind(&e)));
                }
                None
            }
            Ok(Ok(v)) => {
                if !at_boundary {
                    self.problem("into-input-accepts-midrecord", "is_record_boundary() is false but into_input() succeeded".into());
                    return None;
                }
                if v.len() > self.fed || self.bytes[self.fed - v.len()..self.fed] != v[..] {
                    self.problem(
                        "leftover-not-suffix",
                        format!("into_input() returned {} bytes that are not the last {} bytes fed (fed up to offset {})", v.len(), v.len(), self.fed),
                    );
                    return None;
                }
                Some(self.fed - v.len())
            }
        }
    }
}


/// Checks one successful parse() result against the stream model: delivered bytes are a prefix
/// of E(s); stream_end only once the terminator header was fed and all of E(s) delivered; no
/// stall once the terminator is buffered. Returns false (after recording the problem) on breach.
pub fn model_check(d: &mut SDriver, m: &StreamModel, st: PStatus, dest: Option<usize>, fed_before: usize) -> bool {
    let epoch_idx = d.epochs.len() - 1;
    let Some(s) = d.active() else { return true };
    let Some(si) = m.streams.iter().find(|x| x.rtype == s) else { return true };
    let (dlen, ok_prefix) = {
        let e = &d.epochs[epoch_idx];
        (e.delivered.len(), si.content.starts_with(&e.delivered))
    };
    if !ok_prefix {
        let e = &d.epochs[epoch_idx];
        let first_bad = e.delivered.iter().zip(&si.content).take_while(|(a, b)| a == b).count();
        d.problem(
            "delivered-not-prefix",
            format!("bytes delivered for stream {s} are not a prefix of the stream's content: first difference at stream offset {first_bad} (delivered {dlen}, content {})", si.content.len()),
        );
        return false;
    }
    if st.stream_end {
        match si.term_off {
            None => {
                d.problem("premature-stream-end", format!("stream_end reported for stream {s} but the input contains no terminator for it"));
                return false;
            }
            Some(t) => {
                if d.fed < t + 8 {
                    d.problem("premature-stream-end", format!("stream_end reported for stream {s} after {} bytes, its terminator header ends at {}", d.fed, t + 8));
                    return false;
                }
                if dlen != si.content.len() {
                    d.problem("stream-end-before-all-data", format!("stream_end reported for stream {s} with {dlen} of {} bytes delivered", si.content.len()));
                    return false;
                }
                if !si.term_own {
                    d.cnt.held_back += 1;
                }
            }
        }
    } else if let Some(t) = si.term_off {
        // bounded progress: everything incl. the terminator header is in the parser, the call
        // had room, yet nothing was delivered and no end reported
        let had_room = dest.map_or(true, |l| l > 0);
        if had_room && st.stream == 0 && fed_before >= t + 8 && m.abort_off.map_or(true, |a| a > t) {
            d.problem("stalled", format!("all bytes up to the terminator of stream {s} (header ends at {}) were fed before this call, the call had room, yet it delivered nothing and did not report stream_end", t + 8));
            return false;
        }
    }
    true
}

// ------------------------------------------------------------------------------------------
// random caller schedules

#[derive(Clone, Debug)]
pub struct Policy {
    pub dest_pct: usize,
    pub dest_max: usize,
    pub consume_pct: usize,
    pub compress_pct: usize,
    pub consume_out_pct: usize,
}

impl Policy {
    pub fn random(rng: &mut Rng) -> Self {
        Self {
            dest_pct: *rng.pick(&[0usize, 20, 50, 80, 100]),
            dest_max: *rng.pick(&[1usize, 3, 8, 64, 400, 5000]),
            consume_pct: *rng.pick(&[10usize, 50, 100]),
            compress_pct: *rng.pick(&[0usize, 10, 50, 100]),
            consume_out_pct: *rng.pick(&[0usize, 30, 100]),
        }
    }
}

/// What the caller does with each input stream of the role.
#[derive(Clone, Copy, Debug, PartialEq, Eq)]
pub enum Plan {
    /// read until stream_end, then advance
    ReadAll,
    /// read at most this many bytes, then advance (early)
    ReadAtMost(usize),
    /// advance after this many parse calls while the stream is active, wherever the parser is
    /// (mid-payload, mid-padding, inside a management record's body)
    AfterCalls(usize),
}

/// Drives the stream parser with a random schedule. The active stream is advanced according to
/// `plans` (one per input stream of the role, in order); after the last stream the caller
/// selects None and keeps parsing until `limit` is reached. When `model` is given, deliveries
/// are checked against it as they happen.
pub fn run_schedule(d: &mut SDriver, rng: &mut Rng, chunk: &mut Chunking, pol: &Policy, plans: &[Plan], order: &[u8], model: Option<&StreamModel>) {
    run_schedule_ext(d, rng, chunk, pol, plans, order, model, false);
}

/// `stop_at_none`: return as soon as the caller has selected `None` as the active stream,
/// without parsing any further (look-ahead behind a held terminator stays un-interpreted).
#[allow(clippy::too_many_arguments)]
pub fn run_schedule_ext(d: &mut SDriver, rng: &mut Rng, chunk: &mut Chunking, pol: &Policy, plans: &[Plan], order: &[u8], model: Option<&StreamModel>, stop_at_none: bool) {
    run_schedule_full(d, rng, chunk, pol, plans, order, model, stop_at_none, false);
}

/// `stop_at_last_end`: return when the role's LAST stream reports its end, before selecting
/// `None` — the caller then converts the parser as it stands (possibly with unconsumed
/// stream-buffer contents).
#[allow(clippy::too_many_arguments)]
pub fn run_schedule_full(d: &mut SDriver, rng: &mut Rng, chunk: &mut Chunking, pol: &Policy, plans: &[Plan], order: &[u8], model: Option<&StreamModel>, stop_at_none: bool, stop_at_last_end: bool) {
    let budget = 8 * d.limit as u64 + 4000;
    let mut steps = 0u64;
    let mut idle = 0u32;
    let mut stuck = 0u32;
    let mut calls_in_epoch = 0usize;
    loop {
        steps += 1;
        if steps > budget {
            d.cnt.budget_exhausted += 1;
            return;
        }
        if d.err.is_some() || !d.ok() {
            return;
        }
        // --- optional caller actions between parse calls
        if !d.shadow_stream.is_empty() && rng.below(100) < pol.consume_pct {
            let len = d.shadow_stream.len();
            let k = if rng.chance(1, 2) { len } else { rng.range(1, len) };
            d.consume_stream(k);
        }
        if rng.below(100) < pol.compress_pct {
            d.compress();
        }
        if !d.shadow_out.is_empty() && rng.below(100) < pol.consume_out_pct {
            let len = d.shadow_out.len();
            let k = match rng.below(4) {
                0 => len,
                1 => len + 5,
                _ => rng.range(1, len),
            };
            d.consume_output(k);
        }
        if !d.ok() {
            return;
        }
        // --- make room if needed
        let mut space = d.space();
        if space == 0 && d.remaining() > 0 {
            let len = d.shadow_stream.len();
            if len > 0 {
                d.consume_stream(len);
            }
            d.compress();
            space = d.space();
        }
        // --- feed + parse
        let n = chunk.next(rng, d.fed, space, d.remaining());
        let use_dest = d.shadow_stream.is_empty() && rng.below(100) < pol.dest_pct;
        let dest = if use_dest { Some(if rng.chance(1, 12) { 0 } else { rng.range(1, pol.dest_max) }) } else { None };
        let fed_before = d.fed;
        let Some(st) = d.feed_parse(n, dest) else { return };
        // --- model checks
        let active = d.active();
        if let Some(m) = model {
            if !model_check(d, m, st, dest, fed_before) {
                return;
            }
        }
        let epoch_idx = d.epochs.len() - 1;
        // --- advancing
        if let Some(s) = active {
            let pos = order.iter().position(|&t| t == s).unwrap_or(0);
            let plan = plans.get(pos).copied().unwrap_or(Plan::ReadAll);
            let delivered = d.epochs[epoch_idx].delivered.len();
            let advance = match plan {
                Plan::ReadAll => st.stream_end,
                Plan::ReadAtMost(k) => st.stream_end || delivered >= k,
                Plan::AfterCalls(k) => {
                    calls_in_epoch += 1;
                    st.stream_end || calls_in_epoch >= k
                }
            };
            if advance {
                let next = order.get(pos + 1).copied();
                if stop_at_last_end && next.is_none() && st.stream_end {
                    return;
                }
                // the usual read loop: everything delivered has been consumed and the buffer tidied
                // before the caller decides to move on (a fully compacted, empty buffer is a distinct
                // layout for set_stream's discard step)
                if rng.chance(1, 3) {
                    let len = d.shadow_stream.len();
                    if len > 0 {
                        d.consume_stream(len);
                    }
                    d.compress();
                    d.cnt.tidy_before_advance += 1;
                    if !d.ok() {
                        return;
                    }
                }
                if d.set_stream(next).is_err() {
                    d.problem("forward-set-stream-rejected", format!("set_stream({next:?}) after stream {s} was rejected"));
                    return;
                }
                idle = 0;
                calls_in_epoch = 0;
                if stop_at_none && next.is_none() {
                    return;
                }
                continue;
            }
        }
        // --- termination
        let had_room = dest.map_or(true, |l| l > 0);
        if n == 0 && st.stream == 0 && st.output == 0 && had_room {
            idle += 1;
        } else {
            idle = 0;
        }
        if d.remaining() == 0 && idle >= 2 && (active.is_none() || model.is_none() || idle >= 4) {
            return;
        }
        if d.remaining() > 0 && space == 0 && n == 0 && had_room && st.stream == 0 && st.output == 0 && d.shadow_stream.is_empty() {
            // no room even after consuming + compressing, and parsing made no progress; the space
            // freed by this parse() only shows after the next compress, so require a streak
            stuck += 1;
            if stuck >= 3 {
                d.cnt.wedges += 1;
                return;
            }
        } else if n > 0 || st.stream > 0 {
            stuck = 0;
        }
    }
}
