//! C20 — CGI response header writers emit exactly the documented grammar and byte count.

use std::io::{self, Write};
use std::path::PathBuf;

use fastcgi_server::cgi::response::{http_headers, simple_redirect, write_headers};
use http::StatusCode;

use crate::ev::{guarded, panic_signature, Case, Ctx, Scale};
use crate::json::{hex_cap, Json};
use crate::rng::Rng;

/// A writer that accepts at most `step` bytes per `write` call and relies on the default
/// `write_vectored` (first non-empty buffer only).
struct Dribble {
    out: Vec<u8>,
    step: usize,
}
impl Write for Dribble {
    fn write(&mut self, buf: &[u8]) -> io::Result<usize> {
        let n = buf.len().min(self.step);
        self.out.extend_from_slice(&buf[..n]);
        Ok(n)
    }
    fn flush(&mut self) -> io::Result<()> {
        Ok(())
    }
}

/// A writer with a native `write_vectored` that accepts at most `step` bytes per call IN TOTAL,
/// continuing into the later slices (so a short write can end in the middle of any part).
struct VecDribble {
    out: Vec<u8>,
    step: usize,
    vectored_calls: u64,
}
impl Write for VecDribble {
    fn write(&mut self, buf: &[u8]) -> io::Result<usize> {
        let n = buf.len().min(self.step);
        self.out.extend_from_slice(&buf[..n]);
        Ok(n)
    }
    fn write_vectored(&mut self, bufs: &[io::IoSlice<'_>]) -> io::Result<usize> {
        self.vectored_calls += 1;
        let mut left = self.step;
        let mut n = 0;
        for b in bufs {
            let k = b.len().min(left);
            self.out.extend_from_slice(&b[..k]);
            n += k;
            left -= k;
            if left == 0 {
                break;
            }
        }
        Ok(n)
    }
    fn flush(&mut self) -> io::Result<()> {
        Ok(())
    }
}

type Headers = Vec<(Vec<u8>, Vec<u8>)>;

fn model_headers(code: u16, reason: Option<&str>, headers: &Headers) -> Vec<u8> {
    let mut v = format!("Status: {code} {}", reason.unwrap_or("Custom")).into_bytes();
    for (n, val) in headers {
        v.push(b'\n');
        v.extend_from_slice(n);
        v.extend_from_slice(b": ");
        v.extend_from_slice(val);
    }
    v.extend_from_slice(b"\n\n");
    v
}

fn model_redirect(loc: &str) -> Vec<u8> {
    format!("Location: {loc}\n\n").into_bytes()
}

fn no_newline_bytes(rng: &mut Rng, n: usize) -> Vec<u8> {
    (0..n)
        .map(|_| loop {
            let b = rng.u8();
            if b != b'\n' && b != b'\r' {
                break b;
            }
        })
        .collect()
}

fn gen_headers(rng: &mut Rng) -> Headers {
    let n = rng.below(7);
    let mut v = Vec::new();
    for _ in 0..n {
        let mut name = match rng.below(5) {
            0 => Vec::new(),
            1 => b"Content-Type".to_vec(),
            2 => b"X-Statusx".to_vec(),
            _ => {
                let k = rng.below(20);
                no_newline_bytes(rng, k)
            }
        };
        if name.eq_ignore_ascii_case(b"status") {
            name.push(b'2'); // the name `Status` is reserved (documented precondition)
        }
        let value = match rng.below(4) {
            0 => Vec::new(),
            1 => b"text/plain; charset=utf-8".to_vec(),
            _ => {
                let k = rng.below(60);
                no_newline_bytes(rng, k)
            }
        };
        v.push((name, value));
    }
    v
}

enum Call<'a> {
    /// `lazy`: the headers come from an iterator whose size_hint has a lower bound of 0
    Headers(StatusCode, &'a Headers, bool),
    Redirect(&'a str),
}

fn invoke<W: Write>(w: W, call: &Call) -> io::Result<usize> {
    match call {
        Call::Headers(st, hs, false) => write_headers(w, *st, hs.iter().map(|(n, v)| (&n[..], &v[..]))),
        Call::Headers(st, hs, true) => {
            let mut i = 0;
            write_headers(
                w,
                *st,
                std::iter::from_fn(|| {
                    let r = hs.get(i).map(|(n, v)| (&n[..], &v[..]));
                    i += 1;
                    r
                })
                .filter(|_| true),
            )
        }
        Call::Redirect(loc) => simple_redirect(w, loc),
    }
}

/// Runs one writer call against every destination kind. `full_caps`: every capacity 0..=L+1.
fn check_call(c: &mut Case, call: &Call, expect: &[u8], what: &str, full_caps: bool) -> bool {
    let l = expect.len();
    let fail = |c: &mut Case, sig: &str, msg: String| {
        c.violation(sig, Json::obj().with("call", what).with("expected", hex_cap(expect, 200)).with("problem", msg));
        false
    };
    // Vec<u8>
    let mut v = vec![0xEEu8; 3];
    match guarded(|| invoke(&mut v, call)) {
        Ok(Ok(n)) => {
            if v[..3] != [0xEE; 3] || &v[3..] != expect {
                return fail(c, "wrong-output", format!("Vec output {}", hex_cap(&v[3..], 200)));
            }
            if n != l {
                return fail(c, "wrong-count", format!("returned {n}, wrote {l}"));
            }
        }
        Ok(Err(e)) => return fail(c, "vec-error", format!("error writing into Vec: {e}")),
        Err(p) => return fail(c, &panic_signature(&p), format!("panic: {p}")),
    }
    c.l.evaluations += 1;
    // bounded &mut [u8] of every capacity
    let caps: Vec<usize> = if full_caps {
        (0..=l + 1).collect()
    } else {
        let mut k = vec![0, 1, 8, 11, 12, l.saturating_sub(2), l.saturating_sub(1), l, l + 1];
        k.push(c.rng.below(l + 1));
        k.retain(|&x| x <= l + 1);
        k
    };
    let mut backing = vec![0u8; l + 8];
    for cap in caps {
        backing.fill(0xEE);
        let r = guarded(|| invoke(&mut backing[..cap], call));
        c.l.evaluations += 1;
        c.l.count("bounded_destinations");
        match r {
            Ok(Ok(n)) => {
                if cap < l {
                    return fail(c, "short-destination-success", format!("capacity {cap} < {l} but returned Ok({n})"));
                }
                if n != l || &backing[..l] != expect {
                    return fail(c, "wrong-output-bounded", format!("capacity {cap}: returned {n}, bytes {}", hex_cap(&backing[..l], 200)));
                }
            }
            Ok(Err(_)) => {
                if cap >= l {
                    return fail(c, "sufficient-destination-error", format!("capacity {cap} >= {l} but got an error"));
                }
                c.l.count("bounded_errors");
                // whatever was written must be a prefix of the expected output
                let good = backing[..cap].iter().zip(expect).take_while(|(a, b)| a == b).count();
                if backing[good..cap].iter().any(|&b| b != 0xEE) {
                    return fail(c, "garbage-before-error", format!("capacity {cap}: bytes written are not a prefix of the output"));
                }
            }
            Err(p) => return fail(c, &panic_signature(&p), format!("panic at capacity {cap}: {p}")),
        }
        if backing[cap..].iter().any(|&b| b != 0xEE) {
            return fail(c, "write-beyond-capacity", format!("capacity {cap}: bytes beyond the destination were modified"));
        }
    }
    // writers that take few bytes per call
    for step in [1usize, 3, 1000] {
        let mut d = Dribble { out: Vec::new(), step };
        c.l.evaluations += 1;
        c.l.count("partial_writers");
        match guarded(|| invoke(&mut d, call)) {
            Ok(Ok(n)) => {
                if d.out != expect || n != l {
                    return fail(c, "partial-writer-output", format!("writer accepting {step} B/call: returned {n}, got {} bytes: {}", d.out.len(), hex_cap(&d.out, 120)));
                }
            }
            Ok(Err(e)) => return fail(c, "partial-writer-error", format!("writer accepting {step} B/call: {e}")),
            Err(p) => return fail(c, &panic_signature(&p), format!("panic: {p}")),
        }
    }
    // writers with a native write_vectored that stop in the middle of any slice
    for step in [1usize, 2, 3, 5, 7, 16, 1 + c.rng.below(40)] {
        let mut d = VecDribble { out: Vec::new(), step, vectored_calls: 0 };
        c.l.evaluations += 1;
        c.l.count("vectored_partial_writers");
        match guarded(|| invoke(&mut d, call)) {
            Ok(Ok(n)) => {
                if d.out != expect || n != l {
                    return fail(c, "vectored-partial-writer-output", format!("vectored writer accepting {step} B/call: returned {n}, got {} bytes: {}", d.out.len(), hex_cap(&d.out, 120)));
                }
            }
            Ok(Err(e)) => return fail(c, "vectored-partial-writer-error", format!("vectored writer accepting {step} B/call: {e}")),
            Err(p) => return fail(c, &panic_signature(&p), format!("panic: {p}")),
        }
    }
    // Cursor over a bounded slice (another std bounded writer)
    let mut backing2 = vec![0xEEu8; l];
    let cap = if l > 0 { c.rng.below(l) } else { 0 };
    let r = guarded(|| invoke(io::Cursor::new(&mut backing2[..cap]), call));
    match r {
        Ok(Ok(n)) if l > 0 => return fail(c, "short-destination-success", format!("Cursor capacity {cap} < {l} but returned Ok({n})")),
        Err(p) => return fail(c, &panic_signature(&p), format!("panic with Cursor: {p}")),
        _ => {}
    }
    true
}

pub fn run(ctx: &Ctx, evidence: Option<&PathBuf>) -> i32 {
    let step = match ctx.scale {
        Scale::Full => 1,
        Scale::San => 7,
        Scale::Miri => 97,
    };
    // ---- every status code x fixed + seeded header lists x every capacity ---------------------
    ctx.run_cases("status-codes", 900, |c| {
        if c.index % step != 0 {
            return;
        }
        let code = 100 + c.index as u16;
        let Ok(st) = StatusCode::from_u16(code) else {
            c.violation("harness-status", Json::obj().with("code", code));
            return;
        };
        let reason = st.canonical_reason();
        let mut lists: Vec<Headers> = vec![
            vec![],
            vec![(b"Content-Type".to_vec(), b"text/html".to_vec())],
            vec![(vec![], vec![]), (b"X".to_vec(), vec![]), (vec![], b"v".to_vec())],
            vec![(b"Sta\xfftus".to_vec(), b"\x00\xff\t ".to_vec()), (b"Location".to_vec(), b"/x?y=z".to_vec())],
        ];
        for _ in 0..if ctx.thorough() { 12 } else { 3 } {
            lists.push(gen_headers(&mut c.rng));
        }
        for (i, hs) in lists.iter().enumerate() {
            let expect = model_headers(code, reason, hs);
            let what = format!("write_headers({code}, {} headers)", hs.len());
            if !check_call(c, &Call::Headers(st, hs, false), &expect, &what, true) {
                return;
            }
            // the same list through an iterator that cannot tell how many items it has
            if !check_call(c, &Call::Headers(st, hs, true), &expect, &format!("{what} from an iterator with size_hint (0, _)"), false) {
                return;
            }
            c.l.count("lazy_header_iterators");
            c.l.sig(u64::from(code) << 8 | i as u64);
            if code == 431 && i == 1 {
                c.l.sample(Json::obj().with("call", what.clone()).with("output", String::from_utf8_lossy(&expect).into_owned()));
            }
        }
        c.l.count("status_codes");
        if reason.is_some() {
            c.l.count("canonical_reason_codes");
        } else {
            c.l.count("custom_reason_codes");
        }
    });
    // ---- redirects -------------------------------------------------------------------------------
    let n = ctx.size(2_000, 100_000);
    ctx.run_cases("redirects", n, |c| {
        let loc: String = match c.index {
            0 => String::new(),
            1 => "/".into(),
            2 => "https://example.com/foo?q=bar#baz".into(),
            3 => "/ünï¢ode/\u{1F600}".into(),
            _ => {
                let k = c.rng.below(120);
                (0..k)
                    .map(|_| {
                        let ch = if c.rng.chance(1, 10) { char::from_u32(0x80 + c.rng.below(0x2000) as u32).unwrap_or('x') } else { (0x20 + c.rng.below(0x5f) as u8) as char };
                        ch
                    })
                    .collect()
            }
        };
        let expect = model_redirect(&loc);
        if check_call(c, &Call::Redirect(&loc), &expect, &format!("simple_redirect({loc:?})"), c.index < 200 || expect.len() < 40) {
            c.l.sig(crate::rng::hash_str(&loc) ^ 0x10c);
            c.l.count("redirects");
        }
        if c.index == 2 {
            c.l.sample(Json::obj().with("call", format!("simple_redirect({loc:?})")).with("output", String::from_utf8_lossy(&expect).into_owned()));
        }
    });
    // ---- every location length 0..=700 (fast paths tend to hinge on a length threshold) ----------
    ctx.run_fixed("redirect-lengths", if ctx.miri() { 3 } else { 701 }, |c| {
        let len = if c.ctx.miri() { [0usize, 246, 300][c.index as usize] } else { c.index as usize };
        let loc: String = (0..len).map(|i| (b'a' + (i % 26) as u8) as char).collect();
        let expect = model_redirect(&loc);
        if check_call(c, &Call::Redirect(&loc), &expect, &format!("simple_redirect(<{len} bytes>)"), len % 16 == 0 || (240..=260).contains(&len)) {
            c.l.count("redirect_lengths");
            c.l.sig(0x7e9 ^ ((len as u64) << 12));
        }
    });
    // ---- http::Response wrapper ----------------------------------------------------------------------
    let n = ctx.size(3_000, 100_000);
    ctx.run_cases("http-response", n, |c| {
        let code = 100 + c.rng.below(900) as u16;
        let mut b = http::Response::builder().status(code);
        let names = ["content-type", "etag", "server", "x-a", "set-cookie", "x-long-header-name-with-dashes", "cache-control"];
        for _ in 0..c.rng.below(7) {
            let name = *c.rng.pick(&names);
            let k = c.rng.below(30);
            let val: Vec<u8> = (0..k).map(|_| 0x21 + c.rng.below(0x5d) as u8).collect();
            b = b.header(name, val);
        }
        let Ok(resp) = b.body(()) else {
            return;
        };
        // the order "given" is the iteration order of the response's header map
        let hs: Headers = resp.headers().iter().map(|(n, v)| (n.as_str().as_bytes().to_vec(), v.as_bytes().to_vec())).collect();
        let expect = model_headers(code, resp.status().canonical_reason(), &hs);
        let mut v = Vec::new();
        c.l.evaluations += 1;
        match guarded(|| http_headers(&mut v, &resp)) {
            Ok(Ok(n)) if n == expect.len() && v == expect => {
                c.l.count("http_responses");
                c.l.sig(crate::rng::hash_bytes(0x4774, &expect));
            }
            other => {
                c.violation(
                    "http-headers",
                    Json::obj().with("code", code).with("expected", hex_cap(&expect, 200)).with("got", hex_cap(&v, 200)).with("result", format!("{other:?}")),
                );
                return;
            }
        }
        let cap = c.rng.below(expect.len());
        let mut small = vec![0u8; cap];
        if let Ok(Ok(n)) = guarded(|| http_headers(&mut small[..], &resp)) {
            c.violation("short-destination-success", Json::obj().with("call", "http_headers").with("capacity", cap).with("needed", expect.len()).with("returned", n));
        }
    });

    if ctx.scale == Scale::Full {
        ctx.gate("status_codes", 900);
    }
    ctx.gate("canonical_reason_codes", 30);
    ctx.gate("custom_reason_codes", 30);
    ctx.gate("bounded_errors", 1000);
    ctx.gate("redirect_lengths", 701);
    ctx.extra("exhaustive_subspaces", "status codes 100..=999; destination capacities 0..=L+1 for every produced output");
    ctx.finish(
        "exploration",
        "all status codes 100..=999 x (4 fixed + seeded) header lists (0..6 headers, empty names/values, arbitrary bytes without CR/LF, never the reserved name Status) through write_headers; \
         seeded + fixed location strings through simple_redirect; seeded http::Response values through http_headers. Every call is made against Vec<u8> (prefix preserved, exact bytes, returned count), \
         against &mut [u8] of EVERY capacity 0..=L+1 (capacity < L => Err, nothing beyond the capacity touched, capacity >= L => Ok(L) and exact bytes), against writers that accept 1/3/1000 bytes per write call, and a bounded Cursor. \
         Model: format!(\"Status: {code} {reason|Custom}\") + \"\\nname: value\"* + \"\\n\\n\". distinct_nontrivial = distinct (status code, header list) / location / response cases (set).",
        &["model = format! in the harness", "header lists never use the reserved name `Status` and never contain CR/LF (documented preconditions)"],
        false,
        evidence,
    )
}
