//! Small deterministic PRNG (xoshiro256**, seeded through splitmix64).
//! Every case derives its own generator from (VERIF_SEED, workload name, case index),
//! so a single case can be replayed without re-running the ones before it.

#[derive(Clone, Debug)]
pub struct Rng {
    s: [u64; 4],
}

fn splitmix(x: &mut u64) -> u64 {
    *x = x.wrapping_add(0x9E37_79B9_7F4A_7C15);
    let mut z = *x;
    z = (z ^ (z >> 30)).wrapping_mul(0xBF58_476D_1CE4_E5B9);
    z = (z ^ (z >> 27)).wrapping_mul(0x94D0_49BB_1331_11EB);
    z ^ (z >> 31)
}

pub fn hash_str(s: &str) -> u64 {
    // FNV-1a
    let mut h: u64 = 0xcbf2_9ce4_8422_2325;
    for b in s.bytes() {
        h ^= u64::from(b);
        h = h.wrapping_mul(0x100_0000_01b3);
    }
    h
}

pub fn hash_bytes(h0: u64, s: &[u8]) -> u64 {
    let mut h: u64 = h0 ^ 0xcbf2_9ce4_8422_2325;
    for &b in s {
        h ^= u64::from(b);
        h = h.wrapping_mul(0x100_0000_01b3);
    }
    h
}

pub fn mix(a: u64, b: u64) -> u64 {
    let mut x = a ^ b.rotate_left(29) ^ 0x1234_5678_9abc_def1;
    splitmix(&mut x)
}

impl Rng {
    pub fn new(seed: u64) -> Self {
        let mut x = seed;
        let s = [splitmix(&mut x), splitmix(&mut x), splitmix(&mut x), splitmix(&mut x)];
        Self { s }
    }

    pub fn for_case(seed: u64, workload: &str, index: u64) -> Self {
        Self::new(mix(mix(seed, hash_str(workload)), index))
    }

    pub fn next_u64(&mut self) -> u64 {
        let result = self.s[1].wrapping_mul(5).rotate_left(7).wrapping_mul(9);
        let t = self.s[1] << 17;
        self.s[2] ^= self.s[0];
        self.s[3] ^= self.s[1];
        self.s[1] ^= self.s[2];
        self.s[0] ^= self.s[3];
        self.s[2] ^= t;
        self.s[3] = self.s[3].rotate_left(45);
        result
    }

    /// Uniform in 0..n (n > 0).
    pub fn below(&mut self, n: usize) -> usize {
        debug_assert!(n > 0);
        ((u128::from(self.next_u64()) * (n as u128)) >> 64) as usize
    }

    /// Uniform in lo..=hi.
    pub fn range(&mut self, lo: usize, hi: usize) -> usize {
        debug_assert!(lo <= hi);
        lo + self.below(hi - lo + 1)
    }

    pub fn chance(&mut self, num: usize, den: usize) -> bool {
        self.below(den) < num
    }

    pub fn pick<'a, T>(&mut self, xs: &'a [T]) -> &'a T {
        &xs[self.below(xs.len())]
    }

    pub fn u8(&mut self) -> u8 {
        self.next_u64() as u8
    }
    pub fn u16(&mut self) -> u16 {
        self.next_u64() as u16
    }
    pub fn u32(&mut self) -> u32 {
        self.next_u64() as u32
    }

    pub fn bytes(&mut self, n: usize) -> Vec<u8> {
        let mut v = Vec::with_capacity(n);
        while v.len() < n {
            let x = self.next_u64().to_le_bytes();
            let take = (n - v.len()).min(8);
            v.extend_from_slice(&x[..take]);
        }
        v
    }

    /// Random bytes of random length 0..max_len (exclusive).
    pub fn rbytes(&mut self, max_len: usize) -> Vec<u8> {
        let n = self.below(max_len.max(1));
        self.bytes(n)
    }

    pub fn shuffle<T>(&mut self, xs: &mut [T]) {
        for i in (1..xs.len()).rev() {
            let j = self.below(i + 1);
            xs.swap(i, j);
        }
    }
}
