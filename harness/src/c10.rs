//! C10 — output records are complete, never interleaved, carry exactly the written bytes.

use std::path::PathBuf;
use std::pin::Pin;
use std::sync::atomic::{AtomicUsize, Ordering};
use std::sync::{Arc, Mutex};
use std::task::{Poll, Waker};

use fastcgi_server::async_io::{Request, StreamWriter};
use fastcgi_server::parser::request;
use fastcgi_server::ExitStatus;
use futures_util::io::{AsyncReadExt, AsyncWrite};

use crate::c02::config;
use crate::ev::{Case, Ctx, Scale};
use crate::exec::Exec;
use crate::gen;
use crate::json::{hex_cap, Json};
use crate::rng::{mix, Rng};
use crate::spec::{self, OutRec};
use crate::syncdrive::{self as sd, Chunking};
use crate::transport::{Behaviour, Pipe, Reader, Shared, Writer};
use crate::wire;

const SIZES: [usize; 12] = [0, 1, 7, 8, 9, 255, 4096, 65535, 65536, 100_000, 16, 1000];

/// payload tag of the writer that is cloned in the middle of a record
const CLONE_WID: u8 = 3;

fn payload(wid: u8, seq: usize, len: usize) -> Vec<u8> {
    (0..len).map(|j| (wid << 6) | ((seq * 7 + j) & 0x3f) as u8).collect()
}

#[derive(Clone, Debug)]
enum WOp {
    Write(usize),
    /// like Write, but a retry after Pending passes a buffer grown by this many bytes
    WriteGrow(usize, usize),
    /// like Write, but the first time the call returns Pending the writer is cloned (a clone made
    /// while a record is in flight); the clone then writes this many bytes of its own
    WriteCloneMid(usize, usize),
    Flush,
}

#[derive(Clone, Debug, Default)]
struct WLog {
    /// successful writes: (bytes the call was given, n returned, payload[..n])
    done: Vec<(usize, usize, Vec<u8>)>,
    errors: Vec<String>,
    contended: u64,
    grown_retries: u64,
    clones_mid_write: u64,
}

/// One poll_write call driven to completion: re-polled until Ready, with the same buffer or —
/// `grow` — with a longer buffer that has the same prefix (what a copy loop that keeps filling
/// its buffer does). Returns (n, the buffer passed to the successful call).
async fn write_once(w: &mut StreamWriter<Writer>, buf: Vec<u8>, grow: usize, pipe: &Shared, log: &Arc<Mutex<WLog>>, mut clone_slot: Option<&mut Option<StreamWriter<Writer>>>) -> std::io::Result<(usize, Vec<u8>)> {
    let mut buf = buf;
    let mut grow = grow;
    let n = std::future::poll_fn(|cx| {
        let before = pipe.lock().unwrap_or_else(std::sync::PoisonError::into_inner).pending_writes;
        let r = Pin::new(&mut *w).poll_write(cx, &buf);
        if r.is_pending() {
            if pipe.lock().unwrap_or_else(std::sync::PoisonError::into_inner).pending_writes == before {
                // Pending although the transport did not refuse: another writer holds the lock
                log.lock().unwrap().contended += 1;
            }
            if grow > 0 && !buf.is_empty() {
                let l = buf.len();
                buf.extend((0..grow).map(|j| 0x30 | ((l + j) & 0x0f) as u8));
                grow = 0;
                log.lock().unwrap().grown_retries += 1;
            }
            if let Some(slot) = clone_slot.as_deref_mut() {
                if slot.is_none() {
                    *slot = Some(w.clone());
                    log.lock().unwrap().clones_mid_write += 1;
                }
            }
        }
        r
    })
    .await?;
    Ok((n, buf))
}

async fn writer_task(mut w: StreamWriter<Writer>, wid: u8, ops: Vec<WOp>, pipe: Shared, log: Arc<Mutex<WLog>>, clone_log: Arc<Mutex<WLog>>, done: Arc<Done>) {
    let mut seq = 0;
    for op in ops {
        match op {
            WOp::Write(len) | WOp::WriteGrow(len, _) | WOp::WriteCloneMid(len, _) => {
                let grow = if let WOp::WriteGrow(_, g) = op { g } else { 0 };
                let buf = payload(wid, seq, len);
                seq += 1;
                let mut slot = None;
                let want_clone = matches!(op, WOp::WriteCloneMid(..));
                match write_once(&mut w, buf, grow, &pipe, &log, want_clone.then_some(&mut slot)).await {
                    Ok((n, buf)) => log.lock().unwrap().done.push((len, n, buf[..n.min(buf.len())].to_vec())),
                    Err(e) => {
                        log.lock().unwrap().errors.push(format!("write: {e}"));
                        break;
                    }
                }
                if let WOp::WriteCloneMid(_, clen) = op {
                    // the clone (made mid-record, or — if the call never returned Pending — now) is a
                    // writer like any other: its write must produce one record of its own
                    let mut cl = slot.unwrap_or_else(|| w.clone());
                    let cbuf = payload(CLONE_WID, seq, clen);
                    match write_once(&mut cl, cbuf, 0, &pipe, &clone_log, None).await {
                        Ok((n, buf)) => clone_log.lock().unwrap().done.push((clen, n, buf[..n.min(buf.len())].to_vec())),
                        Err(e) => {
                            clone_log.lock().unwrap().errors.push(format!("write: {e}"));
                            break;
                        }
                    }
                }
            }
            WOp::Flush => {
                let r = std::future::poll_fn(|cx| Pin::new(&mut w).poll_flush(cx)).await;
                if let Err(e) = r {
                    log.lock().unwrap().errors.push(format!("flush: {e}"));
                    break;
                }
            }
        }
    }
    drop(w);
    done.finish();
}

/// "n writer tasks finished" latch with a waker for the closing task.
struct Done {
    left: AtomicUsize,
    waker: Mutex<Option<Waker>>,
}
impl Done {
    fn finish(&self) {
        if self.left.fetch_sub(1, Ordering::SeqCst) == 1 {
            if let Some(w) = self.waker.lock().unwrap().take() {
                w.wake();
            }
        }
    }
    async fn wait(&self) {
        std::future::poll_fn(|cx| {
            *self.waker.lock().unwrap() = Some(cx.waker().clone());
            if self.left.load(Ordering::SeqCst) == 0 {
                Poll::Ready(())
            } else {
                Poll::Pending
            }
        })
        .await;
    }
}

struct Setup {
    wire: Vec<u8>,
    pre_end: usize,
    id: u16,
    role: u16,
    buffer: usize,
}

fn setup(rng: &mut Rng) -> Setup {
    let id = gen::gen_request_id(rng);
    let role = *rng.pick(&[wire::RESPONDER, wire::RESPONDER, wire::AUTHORIZER]);
    let buffer = *rng.pick(&[24usize, 64, 8192]);
    let mut wire_bytes = Vec::new();
    wire::begin_request(&mut wire_bytes, id, role, 1, 0);
    wire::record(&mut wire_bytes, wire::PARAMS, id, &[], 0);
    let pre_end = wire_bytes.len();
    // stream phase: data interleaved with management queries whose replies go through poll_output
    for i in 0..rng.below(6) {
        if rng.chance(1, 2) {
            let k = *rng.pick(&[gen::Extra::GetValues, gen::Extra::UnknownType]);
            gen::push_extra(rng, &mut wire_bytes, k, id, role, buffer.max(24) - 13);
        }
        if role == wire::RESPONDER {
            wire::record(&mut wire_bytes, wire::STDIN, id, &gen::tagged(1, i * 10, 10), gen::gen_padding(rng));
        }
    }
    if rng.chance(1, 2) {
        gen::push_extra(rng, &mut wire_bytes, gen::Extra::GetValues, id, role, buffer.max(24) - 13);
    }
    if role == wire::RESPONDER {
        wire::record(&mut wire_bytes, wire::STDIN, id, &[], 0);
    }
    Setup { wire: wire_bytes, pre_end, id, role, buffer }
}

fn gen_ops(rng: &mut Rng, big: bool) -> Vec<WOp> {
    let n = 1 + rng.below(6);
    (0..n)
        .map(|_| {
            if rng.chance(1, 6) {
                WOp::Flush
            } else {
                let mut l = *rng.pick(&SIZES);
                if !big && l > 5000 {
                    l = rng.below(300);
                }
                if rng.chance(1, 5) {
                    WOp::WriteGrow(l, 1 + rng.below(40))
                } else {
                    WOp::Write(l)
                }
            }
        })
        .collect()
}

/// Checks the byte log against the write logs. `writers`: (stream type, log).
fn check_output(out: &[u8], id: u16, writers: &[(u8, WLog)], model_replies: &[spec::ModelReply], closed_with: Option<ExitStatus>, conns: &str) -> Result<(usize, usize), (String, String)> {
    let (recs, tail) = spec::decode_output(out).map_err(|m| ("output-malformed".to_string(), m))?;
    if tail != out.len() {
        return Err(("output-partial-record".into(), format!("{} trailing bytes do not form a complete record", out.len() - tail)));
    }
    let mut next = vec![0usize; writers.len()];
    let mut mgmt = Vec::new();
    let mut interleaved_mgmt = 0;
    let mut seen_stream = false;
    let mut end_records = 0;
    for (ri, r) in recs.iter().enumerate() {
        match r {
            OutRec::Stream { rtype, id: rid, data, pad } => {
                if *rid != id {
                    return Err(("record-wrong-id".into(), format!("record #{ri}: stream record with id {rid}, request id is {id}")));
                }
                if *pad >= 8 || (data.len() + usize::from(*pad)) % 8 != 0 {
                    return Err(("record-padding".into(), format!("record #{ri}: {} content bytes with {pad} padding bytes", data.len())));
                }
                if data.is_empty() {
                    if closed_with.is_some() {
                        end_records += 1;
                        continue;
                    }
                    return Err(("empty-stream-record".into(), format!("record #{ri}: empty {} record although no write of 0 bytes may emit anything", wire::type_name(*rtype))));
                }
                seen_stream = true;
                // which writer of this stream type wrote it?
                let mut found = false;
                for (k, (t, log)) in writers.iter().enumerate() {
                    if t != rtype {
                        continue;
                    }
                    // skip zero-length successful writes (they emit nothing)
                    while next[k] < log.done.len() && log.done[next[k]].1 == 0 {
                        next[k] += 1;
                    }
                    if next[k] < log.done.len() && log.done[next[k]].2 == *data {
                        next[k] += 1;
                        found = true;
                        break;
                    }
                }
                if !found {
                    return Err((
                        "record-matches-no-write".into(),
                        format!("record #{ri} ({} bytes of {}, starts {}) is not the payload of the next successful write of any writer of that stream", data.len(), wire::type_name(*rtype), hex_cap(data, 12)),
                    ));
                }
            }
            OutRec::End { id: rid, .. } if *rid == id && closed_with.is_some() => end_records += 10,
            other => {
                if seen_stream {
                    interleaved_mgmt += 1;
                }
                mgmt.push(other.clone());
            }
        }
    }
    for (k, (t, log)) in writers.iter().enumerate() {
        while next[k] < log.done.len() && log.done[next[k]].1 == 0 {
            next[k] += 1;
        }
        if next[k] != log.done.len() {
            return Err(("write-missing-from-output".into(), format!("writer {k} ({}): successful write #{} of {} bytes has no record in the output", wire::type_name(*t), next[k], log.done[next[k]].1)));
        }
        for (i, (given, n, _)) in log.done.iter().enumerate() {
            // (a retry with a grown buffer may legitimately report more than the first call's length)
            if *n < (*given).min(65535) || *n > 65535 || (*n > *given && log.grown_retries == 0) {
                return Err(("write-return-value".into(), format!("writer {k}: write #{i} of {given} bytes returned {n}, expected {}", (*given).min(65535))));
            }
        }
    }
    if let Some(_st) = closed_with {
        if end_records != 12 {
            return Err(("epilogue".into(), format!("after close(): epilogue signature {end_records} (expected one empty Stdout, one empty Stderr, one EndRequest)")));
        }
    }
    crate::c07::prefix_match(model_replies, &mgmt, conns).map_err(|m| ("management-replies".to_string(), m))?;
    Ok((recs.len(), interleaved_mgmt))
}

/// Run A: deterministic scheduler.
fn run_a(c: &mut Case, big: bool) {
    let s = setup(&mut c.rng);
    let cfg = config(s.buffer, 3);
    let mut ch = Chunking::Fill;
    let run = sd::drive_request(request::Parser::new(&cfg), &s.wire[..s.pre_end], 0, s.pre_end, &mut ch, &mut c.rng, false);
    let Some(Ok(sp)) = run.parser.map(request::Parser::into_stream_parser) else {
        c.violation("harness-setup", Json::obj().with("problem", "cannot build the stream parser"));
        return;
    };
    let beh = Behaviour::random(&mut c.rng);
    let pipe = Pipe::new(Rng::new(c.rng.next_u64()), beh.clone());
    let req = Request::new(sp, Reader(pipe.clone()), Writer(pipe.clone()));
    if !req.is_writeable() {
        c.violation("not-writeable", Json::obj().with("role", s.role).with("problem", "a request with <= 1 input stream must be writeable at construction"));
        return;
    }
    // writers: stdout, stderr, and a clone of one of them
    let n_writers = 1 + c.rng.below(3);
    let mut specs: Vec<(u8, StreamWriter<Writer>)> = Vec::new();
    match n_writers {
        1 => {
            let t = if c.rng.chance(2, 3) { wire::STDOUT } else { wire::STDERR };
            specs.push((t, req.output_stream(sd::rt(t))));
        }
        2 => {
            specs.push((wire::STDOUT, req.output_stream(sd::rt(wire::STDOUT))));
            specs.push((wire::STDERR, req.output_stream(sd::rt(wire::STDERR))));
        }
        _ => {
            let w_out = req.output_stream(sd::rt(wire::STDOUT));
            let w_err = req.output_stream(sd::rt(wire::STDERR));
            let cl = if c.rng.chance(1, 2) { (wire::STDOUT, w_out.clone()) } else { (wire::STDERR, w_err.clone()) };
            specs.push((wire::STDOUT, w_out));
            specs.push((wire::STDERR, w_err));
            specs.push(cl);
        }
    }
    let done = Arc::new(Done { left: AtomicUsize::new(specs.len()), waker: Mutex::new(None) });
    let logs: Vec<Arc<Mutex<WLog>>> = specs.iter().map(|_| Arc::new(Mutex::new(WLog::default()))).collect();
    let types: Vec<u8> = specs.iter().map(|(t, _)| *t).collect();
    let mut all_ops: Vec<Vec<WOp>> = specs.iter().map(|_| gen_ops(&mut c.rng, big)).collect();
    // one writer may be cloned in the middle of a record; the clone writes under its own tag
    let clone_log = Arc::new(Mutex::new(WLog::default()));
    let mut clone_of = None;
    if c.rng.chance(1, 3) {
        let k = c.rng.below(all_ops.len());
        let cands: Vec<usize> = all_ops[k].iter().enumerate().filter(|(_, o)| matches!(o, WOp::Write(n) if *n > 0)).map(|(i, _)| i).collect();
        if !cands.is_empty() {
            let i = *c.rng.pick(&cands);
            if let WOp::Write(n) = all_ops[k][i] {
                let cl = *c.rng.pick(&[1usize, 8, 9, 200]);
                all_ops[k][i] = WOp::WriteCloneMid(n, cl);
                clone_of = Some(k);
            }
        }
    }
    let status = *c.rng.pick(&crate::handler::STATUSES);
    let do_close = c.rng.chance(2, 3);
    let close_result: Arc<Mutex<Option<Result<(), String>>>> = Arc::new(Mutex::new(None));
    let abandoned_reads = Arc::new(AtomicUsize::new(0));

    let mut exec = Exec::new();
    for (k, (_, w)) in specs.into_iter().enumerate() {
        assert_eq!(u8::from(w.stream()), types[k]);
        exec.spawn(Box::pin(writer_task(w, k as u8, all_ops[k].clone(), pipe.clone(), logs[k].clone(), clone_log.clone(), done.clone())));
    }
    {
        let done = done.clone();
        let close_result = close_result.clone();
        let mut req = req;
        // (abandoning a half-flushed reply is only complete once close() has finished it)
        let abandon = do_close && c.rng.chance(1, 3);
        let abandoned = abandoned_reads.clone();
        exec.spawn(Box::pin(async move {
            use std::future::Future;
            // read the request so that management replies are flushed through poll_output
            let mut buf = [0u8; 33];
            loop {
                if abandon && done.left.load(Ordering::SeqCst) == 0 {
                    // all writers are finished: poll the read once and abandon it if it is not ready
                    // (a reply may be half-flushed at this point); close() must still finish it
                    let r = {
                        let mut fut = req.read(&mut buf);
                        std::future::poll_fn(|cx| Poll::Ready(Pin::new(&mut fut).poll(cx))).await
                    };
                    match r {
                        Poll::Ready(Ok(0) | Err(_)) => break,
                        Poll::Ready(Ok(_)) => continue,
                        Poll::Pending => {
                            abandoned.fetch_add(1, Ordering::SeqCst);
                            break;
                        }
                    }
                }
                match req.read(&mut buf).await {
                    Ok(0) | Err(_) => break,
                    Ok(_) => {}
                }
            }
            done.wait().await;
            if do_close {
                let r = req.close(status).await;
                *close_result.lock().unwrap() = Some(r.map(|_| ()).map_err(|e| e.to_string()));
            }
        }));
    }
    // environment: all input available at once or in pieces
    let mut sent = s.pre_end;
    let piece = *c.rng.pick(&[1usize, 20, 100_000]);
    let mut steps = 0u64;
    let mut hist = 0u64;
    loop {
        steps += 1;
        if steps > 600_000 {
            c.l.count("step_budget_exhausted");
            return;
        }
        let mut actions: Vec<u8> = Vec::new(); // 0..=9 task polls, 10 peer send, 11 reader ready, 12 writer ready, 13 peer close
        for t in exec.runnable() {
            actions.push(t as u8);
        }
        let (rg, wg) = {
            let p = pipe.lock().unwrap_or_else(std::sync::PoisonError::into_inner);
            (p.read_gated, p.write_gated)
        };
        if sent < s.wire.len() {
            actions.push(10);
        } else if !pipe.lock().unwrap_or_else(std::sync::PoisonError::into_inner).eof && s.role != wire::RESPONDER {
            actions.push(13);
        }
        if rg {
            actions.push(11);
        }
        if wg {
            actions.push(12);
        }
        if actions.is_empty() {
            break;
        }
        let a = actions[c.rng.below(actions.len())];
        hist = mix(hist, u64::from(a));
        match a {
            10 => {
                let n = piece.min(s.wire.len() - sent);
                pipe.lock().unwrap_or_else(std::sync::PoisonError::into_inner).peer_send(&s.wire[sent..sent + n]);
                sent += n;
            }
            11 => pipe.lock().unwrap_or_else(std::sync::PoisonError::into_inner).reader_ready(),
            12 => pipe.lock().unwrap_or_else(std::sync::PoisonError::into_inner).writer_ready(),
            13 => pipe.lock().unwrap_or_else(std::sync::PoisonError::into_inner).peer_close(),
            t => {
                exec.poll(t as usize);
            }
        }
    }
    c.l.add("executor_steps", steps);
    c.l.state(hist);
    let describe = |c: &mut Case, sig: &str, msg: String, out: &[u8]| {
        c.violation(
            sig,
            Json::obj()
                .with("problem", msg)
                .with("role", s.role)
                .with("buffer_size", s.buffer)
                .with("transport", format!("{beh:?}"))
                .with("writers", types.iter().map(|t| wire::type_name(*t)).collect::<Vec<_>>())
                .with("ops", all_ops.iter().map(|o| format!("{o:?}")).collect::<Vec<_>>())
                .with("close", do_close)
                .with("output_hex", hex_cap(out, 4000)),
        );
    };
    let out = pipe.lock().unwrap_or_else(std::sync::PoisonError::into_inner).outbox.clone();
    if !exec.all_done() {
        describe(c, "writers-stalled", format!("quiescent with unfinished tasks after {steps} steps (lost wake-up on the output lock?)"), &out);
        return;
    }
    let mut wl: Vec<(u8, WLog)> = types.iter().zip(&logs).map(|(t, l)| (*t, l.lock().unwrap().clone())).collect();
    if let Some(k) = clone_of {
        wl.push((types[k], clone_log.lock().unwrap().clone()));
    }
    for (k, (_, l)) in wl.iter().enumerate() {
        if let Some(e) = l.errors.first() {
            describe(c, "writer-error", format!("writer {k}: {e}"), &out);
            return;
        }
    }
    let closed = match &*close_result.lock().unwrap() {
        Some(Ok(())) => Some(status),
        Some(Err(e)) => {
            let e = e.clone();
            describe(c, "close-error", format!("Request::close failed: {e}"), &out);
            return;
        }
        None => None,
    };
    let model = spec::model_streams(&s.wire, s.pre_end, s.id, s.role);
    match check_output(&out, s.id, &wl, &model.replies, closed, "3") {
        Ok((nrec, inter)) => {
            let p = pipe.lock().unwrap_or_else(std::sync::PoisonError::into_inner);
            c.l.add("records_checked", nrec as u64);
            c.l.add("management_replies_between_stream_records", inter as u64);
            c.l.add("lock_contention_events", wl.iter().map(|(_, l)| l.contended).sum());
            c.l.add("vectored_write_cut_in_header", p.cut_in_header);
            c.l.add("vectored_write_cut_at_seam", p.cut_at_seam);
            c.l.add("vectored_write_cut_in_payload", p.cut_in_payload);
            c.l.add("vectored_write_cut_in_padding", p.cut_in_padding);
            c.l.add("transport_pending_writes", p.pending_writes);
            c.l.add("successful_writes", wl.iter().map(|(_, l)| l.done.len() as u64).sum());
            c.l.add("retries_with_grown_buffer", wl.iter().map(|(_, l)| l.grown_retries).sum());
            c.l.add("clones_made_while_a_record_was_in_flight", wl.iter().map(|(_, l)| l.clones_mid_write).sum());
            c.l.add("reads_abandoned_before_close", abandoned_reads.load(Ordering::SeqCst) as u64);
            c.l.count("runs_checked");
            let mut h = beh.class();
            for o in &all_ops {
                for op in o {
                    h = mix(h, match op {
                        WOp::WriteGrow(n, g) => (*n as u64) << 8 | *g as u64,
                        WOp::Write(n) => *n as u64,
                        WOp::WriteCloneMid(n, m) => (*n as u64) << 20 | (*m as u64) << 8 | 0xc1,
                        WOp::Flush => 0xf1,
                    });
                }
            }
            c.l.sig(mix(h, n_writers as u64));
        }
        Err((sig, msg)) => describe(c, &sig, msg, &out),
    }
    if c.index == 1 {
        c.l.sample(Json::obj().with("writers", types.iter().map(|t| wire::type_name(*t)).collect::<Vec<_>>()).with("ops", all_ops.iter().map(|o| format!("{o:?}")).collect::<Vec<_>>()).with("transport", format!("{beh:?}")));
    }
}

// ---- Run B: real threads -------------------------------------------------------------------------

fn run_b(c: &mut Case, iterations: usize) {
    let s = setup(&mut c.rng);
    let cfg = config(s.buffer, 3);
    let mut ch = Chunking::Fill;
    let run = sd::drive_request(request::Parser::new(&cfg), &s.wire[..s.pre_end], 0, s.pre_end, &mut ch, &mut c.rng, false);
    let Some(Ok(sp)) = run.parser.map(request::Parser::into_stream_parser) else { return };
    // short writes, but no injected Pending (nobody would release the gate)
    let beh = Behaviour { read_pending_pct: 0, read_max: 64, write_pending_pct: 0, write_max: *c.rng.pick(&[1usize, 5, 9, 64, 100_000]), flush_pending_pct: 0 };
    let pipe = Pipe::new(Rng::new(c.rng.next_u64()), beh);
    pipe.lock().unwrap_or_else(std::sync::PoisonError::into_inner).peer_send(&s.wire[s.pre_end..]);
    pipe.lock().unwrap_or_else(std::sync::PoisonError::into_inner).peer_close();
    let mut req = Request::new(sp, Reader(pipe.clone()), Writer(pipe.clone()));
    let writers = vec![(wire::STDOUT, req.output_stream(sd::rt(wire::STDOUT))), (wire::STDERR, req.output_stream(sd::rt(wire::STDERR))), (wire::STDOUT, req.output_stream(sd::rt(wire::STDOUT)).clone())];
    let types: Vec<u8> = writers.iter().map(|w| w.0).collect();
    let logs: Vec<Arc<Mutex<WLog>>> = writers.iter().map(|_| Arc::new(Mutex::new(WLog::default()))).collect();
    let done = Arc::new(Done { left: AtomicUsize::new(writers.len()), waker: Mutex::new(None) });
    let seeds: Vec<u64> = (0..writers.len()).map(|_| c.rng.next_u64()).collect();
    let group = crate::threads::Group::new(writers.len() + 1);
    let panics: Arc<Mutex<Vec<String>>> = Arc::new(Mutex::new(Vec::new()));
    let mut stalled = false;
    std::thread::scope(|sc| {
        for (k, (_, w)) in writers.into_iter().enumerate() {
            let (pipe, log, done, seed, group, panics) = (pipe.clone(), logs[k].clone(), done.clone(), seeds[k], group.clone(), panics.clone());
            sc.spawn(move || {
                let _fin = crate::threads::FinishGuard(group.clone());
                let mut rng = Rng::new(seed);
                let ops: Vec<WOp> = (0..iterations).map(|_| if rng.chance(1, 10) { WOp::Flush } else { WOp::Write(*rng.pick(&[0usize, 1, 7, 8, 9, 30, 300])) }).collect();
                let done2 = done.clone();
                let r = crate::ev::guarded(|| crate::threads::block_on(&group, writer_task(w, k as u8, ops, pipe, log, Arc::new(Mutex::new(WLog::default())), done)));
                match r {
                    Ok(Ok(())) => {}
                    Ok(Err(_)) => done2.finish(),
                    Err(p) => {
                        panics.lock().unwrap().push(p);
                        done2.finish();
                    }
                }
            });
        }
        // the request's own task reads (and thereby flushes replies) concurrently
        let _fin = crate::threads::FinishGuard(group.clone());
        let r = crate::threads::block_on(&group, async {
            let mut buf = [0u8; 16];
            loop {
                match req.read(&mut buf).await {
                    Ok(0) | Err(_) => break,
                    Ok(_) => {}
                }
            }
            done.wait().await;
        });
        stalled = r.is_err();
    });
    if let Some(p) = panics.lock().unwrap().first() {
        c.violation(format!("threads:{}", crate::ev::panic_signature(p)), Json::obj().with("problem", format!("a writer thread panicked: {p}")));
        return;
    }
    if stalled || group.deadlocked.load(Ordering::SeqCst) {
        c.violation("threads:deadlock", Json::obj().with("problem", "all threads parked with no wake-up outstanding while writers / the reader are unfinished (lost wake-up on the output lock)"));
        return;
    }
    let out = pipe.lock().unwrap_or_else(std::sync::PoisonError::into_inner).outbox.clone();
    let wl: Vec<(u8, WLog)> = types.iter().zip(&logs).map(|(t, l)| (*t, l.lock().unwrap().clone())).collect();
    let model = spec::model_streams(&s.wire, s.pre_end, s.id, s.role);
    match check_output(&out, s.id, &wl, &model.replies, None, "3") {
        Ok((nrec, _)) => {
            c.l.add("thread_records_checked", nrec as u64);
            c.l.add("thread_lock_contention_events", wl.iter().map(|(_, l)| l.contended).sum());
            c.l.count("thread_runs_checked");
            c.l.sig(mix(0xb, c.index));
        }
        Err((sig, msg)) => c.violation(format!("threads:{sig}"), Json::obj().with("problem", msg).with("output_hex", hex_cap(&out, 4000))),
    }
}

pub fn run(ctx: &Ctx, evidence: Option<&PathBuf>) -> i32 {
    let big = ctx.scale == Scale::Full;
    ctx.run_fixed("directed", ctx.dn(300), |c| run_a(c, c.index % 4 == 0 && big));
    let n = ctx.size3(30_000, 3_000_000, 6);
    ctx.run_cases("writers", n, |c| {
        let b = big && c.rng.chance(1, 6);
        run_a(c, b);
    });
    // real threads (also the workload for TSan / Miri many-seeds)
    let (nt, iters) = match ctx.scale {
        Scale::Full => (ctx.size(60, 2_000), 300),
        Scale::San => (40, 300),
        Scale::Miri => (1, 6),
    };
    ctx.run_cases_serial("threads", nt, |c| run_b(c, iters));
    ctx.gate("runs_checked", 200);
    ctx.gate("lock_contention_events", 50);
    ctx.gate("vectored_write_cut_in_header", 50);
    ctx.gate("vectored_write_cut_at_seam", 20);
    ctx.gate("vectored_write_cut_in_padding", 20);
    ctx.gate("management_replies_between_stream_records", 20);
    ctx.gate("thread_runs_checked", 10);
    ctx.gate("retries_with_grown_buffer", 50);
    ctx.gate("reads_abandoned_before_close", 20);
    if !ctx.miri() {
        ctx.gate("clones_made_while_a_record_was_in_flight", 50);
    }
    ctx.finish(
        "exploration",
        "Run A (deterministic): Request::new + 1..3 StreamWriters (stdout, stderr, a clone) each on its own executor task issuing single poll_write calls of {0,1,7,8,9,16,255,1000,4096,65535,65536,100000} bytes and poll_flush \
         (a third of the cases: one writer clones itself while its poll_write is Pending, i.e. with a record in flight, and the clone then writes a record of its own), \
         plus the request's own task reading the input (Stdin records interleaved with GetValues / unknown-type queries) so that replies are flushed through the shared output lock, then close(status); transport accepts any 1..n bytes of the vectored slices or Pending; all poll orders a seeded scheduler produces. \
         Run B: the same writers on 3 OS threads (park/unpark block_on) against the mutex-protected transport while the main thread reads; also the TSan / Miri workload. \
         Oracle on the decoded byte log: sequence of complete records, stream records carry the request id, padding < 8 and content+padding = 0 mod 8; every Ready(Ok(n)) has n = min(len, 65535) and corresponds to exactly one record of the writer's type whose payload is exactly those n bytes (payload bytes encode writer id + sequence), per-writer order preserved, no other stream bytes, empty writes emit nothing; \
         management replies = prefix of the model's list; after close() exactly one empty Stdout, one empty Stderr, one EndRequest. Quiescence with unfinished tasks = lost wake-up. \
         distinct_nontrivial = distinct (write-size sequences, transport class, #writers) (set); distinct_states_observed = distinct poll orders.",
        &["mock transport and decoder", "thread runs see only the interleavings the OS / TSan / Miri scheduler produces"],
        false,
        evidence,
    )
}
