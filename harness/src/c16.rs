//! C16 — name-value codec round-trips; decoder total, prefix-monotone, zero-copy.

use std::io;
use std::path::PathBuf;

use fastcgi_server::protocol::nv::{self, NVIter};

use crate::ev::{guarded, panic_signature, Case, Ctx, Scale};
use crate::json::{hex_cap, Json};
use crate::rng::{hash_bytes, Rng};
use crate::wire;

/// Checks the decoder on one input against the model. Returns Err(signature, message).
fn check_decode(b: &[u8]) -> Result<usize, (String, String)> {
    let (model, rest_off) = wire::decode_nv_ranges(b);
    let base = b.as_ptr() as usize;

    // shared variant
    let r = guarded(|| -> Result<(), (String, String)> {
        let mut it = NVIter::new(b);
        let hint0 = it.size_hint();
        if hint0.0 > model.len() || hint0.1.map_or(false, |u| u < model.len()) {
            return Err(("size-hint".into(), format!("size_hint {hint0:?} but {} pairs decodable", model.len())));
        }
        for (i, (nr, vr)) in model.iter().enumerate() {
            let hint = it.size_hint();
            if hint.1.map_or(false, |u| u < model.len() - i) {
                return Err(("size-hint".into(), format!("size_hint {hint:?} at pair {i}, {} remain", model.len() - i)));
            }
            let Some((n, v)) = it.next() else {
                return Err(("missing-pair".into(), format!("decoder stopped after {i} pairs, model has {}", model.len())));
            };
            let (np, vp) = (n.as_ptr() as usize, v.as_ptr() as usize);
            if n.len() != nr.len() || v.len() != vr.len() || n != &b[nr.clone()] || v != &b[vr.clone()] {
                return Err(("wrong-pair".into(), format!("pair {i}: lengths/content differ from model ({nr:?},{vr:?}) got ({},{})", n.len(), v.len())));
            }
            if np != base + nr.start || vp != base + vr.start {
                return Err((
                    "not-zero-copy".into(),
                    format!("pair {i}: name at +{} value at +{}, model says +{} / +{}", np.wrapping_sub(base), vp.wrapping_sub(base), nr.start, vr.start),
                ));
            }
        }
        for k in 0..3 {
            if let Some((n, v)) = it.next() {
                return Err(("extra-pair".into(), format!("decoder yielded an extra pair ({} / {} bytes) on call {k} after the model's end", n.len(), v.len())));
            }
        }
        let rest = it.into_inner();
        if rest.as_ptr() as usize != base + rest_off || rest.len() != b.len() - rest_off {
            return Err((
                "wrong-suffix".into(),
                format!("into_inner() = +{}..len {}, model says +{rest_off}..len {}", (rest.as_ptr() as usize).wrapping_sub(base), rest.len(), b.len() - rest_off),
            ));
        }
        Ok(())
    });
    match r {
        Err(p) => return Err((panic_signature(&p), format!("decoder panicked: {p}"))),
        Ok(Err(e)) => return Err(e),
        Ok(Ok(())) => {}
    }

    // mutable variant must agree with the shared one
    let mut copy = b.to_vec();
    let r = guarded(|| -> Result<(), (String, String)> {
        let mbase = copy.as_ptr() as usize;
        let total = copy.len();
        let mut it = NVIter::new(&mut copy[..]);
        for (i, (nr, vr)) in model.iter().enumerate() {
            let Some((n, v)) = it.next() else {
                return Err(("mut-variant-differs".into(), format!("&mut variant stopped after {i} pairs")));
            };
            if n.as_ptr() as usize != mbase + nr.start || v.as_ptr() as usize != mbase + vr.start || n.len() != nr.len() || v.len() != vr.len() {
                return Err(("mut-variant-differs".into(), format!("&mut variant pair {i} at different offsets/lengths")));
            }
        }
        if it.next().is_some() || it.next().is_some() {
            return Err(("mut-variant-differs".into(), "&mut variant yields extra pair".into()));
        }
        let rest = it.into_inner();
        if rest.as_ptr() as usize != mbase + rest_off || rest.len() != total - rest_off {
            return Err(("mut-variant-differs".into(), "&mut variant into_inner differs".into()));
        }
        Ok(())
    });
    match r {
        Err(p) => return Err((panic_signature(&p), format!("&mut decoder panicked: {p}"))),
        Ok(Err(e)) => return Err(e),
        Ok(Ok(())) => {}
    }
    Ok(model.len())
}

fn report(c: &mut Case, b: &[u8], sig: String, msg: String) {
    c.violation(sig, Json::obj().with("input_hex", hex_cap(b, 256)).with("input_len", b.len()).with("error", msg));
}

/// Runs the decode check on `b` and on its prefixes (all of them if short, else around
/// structural offsets and a random sample).
fn check_with_prefixes(c: &mut Case, b: &[u8], all_prefix_limit: usize) {
    let n = match check_decode(b) {
        Ok(n) => n,
        Err((s, m)) => {
            report(c, b, s, m);
            return;
        }
    };
    c.l.evaluations += 1;
    let has_long = b.iter().any(|&x| x & 0x80 != 0);
    if n > 0 || has_long {
        c.l.sig(hash_bytes(b.len() as u64, b));
    }
    c.l.add("pairs_decoded", n as u64);
    let mut cuts: Vec<usize> = Vec::new();
    if b.len() <= all_prefix_limit {
        cuts.extend(0..b.len());
    } else {
        let (ranges, rest) = wire::decode_nv_ranges(b);
        for (nr, vr) in &ranges {
            for o in [nr.start.saturating_sub(5), nr.start.saturating_sub(1), nr.start, nr.start + 1, vr.start, vr.end.saturating_sub(1), vr.end, vr.end + 1, vr.end + 4] {
                if o < b.len() {
                    cuts.push(o);
                }
            }
        }
        cuts.push(rest.min(b.len() - 1));
        for _ in 0..16 {
            cuts.push(c.rng.below(b.len()));
        }
    }
    for cut in cuts {
        c.l.evaluations += 1;
        c.l.count("prefixes_checked");
        if let Err((s, m)) = check_decode(&b[..cut]) {
            report(c, &b[..cut], format!("prefix:{s}"), m);
            return;
        }
    }
}

const LENS: [usize; 12] = [0, 0, 1, 1, 2, 5, 127, 128, 129, 255, 256, 300];
const BIG_LENS: [usize; 4] = [65535, 65536, 70000, 200_000];

fn gen_pairs(rng: &mut Rng, allow_big: bool) -> Vec<(Vec<u8>, Vec<u8>)> {
    let n = rng.below(7);
    let mut v = Vec::new();
    let mut bigs = 0;
    for _ in 0..n {
        let mut len = |rng: &mut Rng| {
            if allow_big && bigs < 2 && rng.chance(1, 12) {
                bigs += 1;
                *rng.pick(&BIG_LENS)
            } else if rng.chance(1, 4) {
                rng.below(600)
            } else {
                *rng.pick(&LENS)
            }
        };
        let (a, b) = (len(rng), len(rng));
        v.push((rng.bytes(a), rng.bytes(b)));
    }
    v
}

pub fn run(ctx: &Ctx, evidence: Option<&PathBuf>) -> i32 {
    // ---- small-scope exhaustive enumeration over boundary alphabets ----------------------
    let alpha: [u8; 7] = [0, 1, 2, 0x7f, 0x80, 0x81, 0xff];
    let max_len = match ctx.scale {
        Scale::Full => 7,
        Scale::San => 6,
        Scale::Miri => 4,
    };
    // enumerate by the first two symbols (49 work items) so that the pool can parallelise
    ctx.run_fixed("enum-alpha7", 49 + 8, |c| {
        let mut buf = Vec::with_capacity(8);
        if c.index >= 49 {
            // lengths 0 and 1
            if c.index == 49 {
                check_with_prefixes(c, &[], 8);
            } else {
                check_with_prefixes(c, &[alpha[(c.index - 50) as usize]], 8);
            }
            return;
        }
        let a = alpha[(c.index / 7) as usize];
        let b = alpha[(c.index % 7) as usize];
        for len in 2..=max_len {
            let rest = len - 2;
            let total = 7usize.pow(rest as u32);
            for mut k in 0..total {
                buf.clear();
                buf.push(a);
                buf.push(b);
                for _ in 0..rest {
                    buf.push(alpha[k % 7]);
                    k /= 7;
                }
                // prefixes of an enumerated string are enumerated strings themselves
                match check_decode(&buf) {
                    Ok(n) => {
                        c.l.evaluations += 1;
                        c.l.count("enumerated_inputs");
                        c.l.add("pairs_decoded", n as u64);
                        if n > 0 || buf.iter().any(|&x| x & 0x80 != 0) {
                            c.l.sig(hash_bytes(len as u64, &buf));
                        }
                    }
                    Err((s, m)) => {
                        let bb = buf.clone();
                        report(c, &bb, s, m);
                        return;
                    }
                }
            }
        }
        if c.index == 30 {
            c.l.sample(Json::obj().with("enumerated_example_hex", hex_cap(&buf, 16)));
        }
    });
    let alpha3: [u8; 3] = [0, 1, 0x80];
    let max3 = match ctx.scale {
        Scale::Full => 10,
        Scale::San => 9,
        Scale::Miri => 6,
    };
    ctx.run_fixed("enum-alpha3", 9, |c| {
        let a = alpha3[(c.index / 3) as usize];
        let b = alpha3[(c.index % 3) as usize];
        let mut buf = Vec::new();
        for len in 8..=max3 {
            let rest = len - 2;
            for mut k in 0..3usize.pow(rest as u32) {
                buf.clear();
                buf.push(a);
                buf.push(b);
                for _ in 0..rest {
                    buf.push(alpha3[k % 3]);
                    k /= 3;
                }
                match check_decode(&buf) {
                    Ok(n) => {
                        c.l.evaluations += 1;
                        c.l.count("enumerated_inputs");
                        if n > 0 {
                            c.l.sig(hash_bytes(len as u64, &buf));
                        }
                    }
                    Err((s, m)) => {
                        let bb = buf.clone();
                        report(c, &bb, s, m);
                        return;
                    }
                }
            }
        }
    });

    // ---- directed hostile headers ---------------------------------------------------------
    ctx.run_fixed("hostile-headers", 1, |c| {
        let specials: [u32; 12] = [0, 1, 127, 128, 0x7fff_fff0, 0x7fff_fff7, 0x7fff_fff8, 0x7fff_fff9, 0x7fff_fffe, 0x7fff_ffff, 0x4000_0000, 0x3fff_ffff];
        for &nl in &specials {
            for &vl in &specials {
                for tail in [0usize, 1, 9, 300] {
                    for pre in [false, true] {
                        let mut b = Vec::new();
                        if pre {
                            wire::nv_pair(&mut b, b"A", b"bc", false, true);
                        }
                        wire::varint(&mut b, nl, true);
                        wire::varint(&mut b, vl, true);
                        b.extend(std::iter::repeat(0x41).take(tail));
                        c.l.count("hostile_headers");
                        check_with_prefixes(c, &b, 40);
                    }
                }
            }
        }
    });

    // ---- generated pair lists: round trip through the crate's encoder ---------------------
    let n = ctx.size(60_000, 3_000_000);
    ctx.run_cases("roundtrip", n, |c| {
        let allow_big = ctx.scale == Scale::Full;
        let pairs = gen_pairs(&mut c.rng, allow_big);
        let mut enc = c.rng.rbytes(4); // pre-existing content must stay untouched
        let prefix = enc.clone();
        let mut model_enc = Vec::new();
        for (n, v) in &pairs {
            let before = enc.len();
            let r = guarded(|| nv::write((n, v), &mut enc));
            match r {
                Ok(Ok(w)) => {
                    if w != enc.len() - before {
                        c.violation("write-count", Json::obj().with("name_len", n.len()).with("value_len", v.len()).with("returned", w).with("appended", enc.len() - before));
                        return;
                    }
                }
                Ok(Err(e)) => {
                    c.violation("write-error", Json::obj().with("name_len", n.len()).with("value_len", v.len()).with("error", e.to_string()));
                    return;
                }
                Err(p) => {
                    c.violation(panic_signature(&p), Json::obj().with("name_len", n.len()).with("value_len", v.len()).with("panic", p));
                    return;
                }
            }
            wire::nv_pair(&mut model_enc, n, v, false, false);
        }
        if enc[..prefix.len()] != prefix[..] {
            c.violation("write-clobbers-prefix", Json::obj().with("pairs", pairs.len()));
            return;
        }
        let body = &enc[prefix.len()..];
        // decoding the crate's encoding yields exactly the pairs, nothing left over
        let (dec, rest) = wire::decode_nv(body);
        if rest != body.len() || dec != pairs {
            c.violation(
                "roundtrip-model-decode",
                Json::obj().with("lens", pairs.iter().map(|(a, b)| format!("{}/{}", a.len(), b.len())).collect::<Vec<_>>()).with("encoded_hex", hex_cap(body, 64)),
            );
            return;
        }
        // canonical form (the specification's encoder): 1 byte below 128, else 4
        if body != &model_enc[..] {
            c.violation("encoding-not-canonical", Json::obj().with("encoded_hex", hex_cap(body, 64)).with("model_hex", hex_cap(&model_enc, 64)));
            return;
        }
        let r = guarded(|| {
            let mut it = NVIter::new(body);
            let got: Vec<(Vec<u8>, Vec<u8>)> = (&mut it).map(|(a, b)| (a.to_vec(), b.to_vec())).collect();
            (got, it.into_inner().len())
        });
        match r {
            Ok((got, left)) => {
                if got != pairs || left != 0 {
                    c.violation(
                        "roundtrip",
                        Json::obj().with("lens", pairs.iter().map(|(a, b)| format!("{}/{}", a.len(), b.len())).collect::<Vec<_>>()).with("decoded_pairs", got.len()).with("left_over", left),
                    );
                    return;
                }
            }
            Err(p) => {
                c.violation(panic_signature(&p), Json::obj().with("panic", p));
                return;
            }
        }
        c.l.count("roundtrips");
        let mut h = 0u64;
        for (a, b) in &pairs {
            h = crate::rng::mix(h, ((a.len() as u64) << 32) | b.len() as u64);
        }
        if !pairs.is_empty() {
            c.l.sig(h ^ 0x77);
        }
        // a bounded destination that is too small must produce an error, not a short success
        if !pairs.is_empty() {
            let (n0, v0) = &pairs[0];
            let need = {
                let mut t = Vec::new();
                wire::nv_pair(&mut t, n0, v0, false, false);
                t.len()
            };
            if need > 0 && need < 5000 {
                let cap = c.rng.below(need);
                let mut small = vec![0u8; cap];
                let r = guarded(|| nv::write((n0, v0), &mut small[..]));
                c.l.count("bounded_writes");
                match r {
                    Ok(Err(_)) => {}
                    Ok(Ok(w)) => {
                        c.violation("short-write-success", Json::obj().with("needed", need).with("capacity", cap).with("returned", w));
                        return;
                    }
                    Err(p) => {
                        c.violation(panic_signature(&p), Json::obj().with("panic", p));
                        return;
                    }
                }
            }
        }
        // the encoded list, mutated lengths and all prefixes through the decoder
        let mut input = model_enc.clone();
        if c.rng.chance(1, 3) && !pairs.is_empty() {
            // mix in legal non-canonical 4-byte length forms
            input.clear();
            for (n, v) in &pairs {
                let (f1, f2) = (c.rng.chance(1, 2), c.rng.chance(1, 2));
                wire::nv_pair(&mut input, n, v, f1, f2);
            }
            c.l.count("noncanonical_inputs");
        }
        match c.rng.below(6) {
            0 if !input.is_empty() => {
                let k = c.rng.below(input.len());
                input[k] = *c.rng.pick(&[0x80u8, 0xff, 0x7f, 0x00, 0x81]);
                c.l.count("mutated_inputs");
            }
            1 => {
                input.extend_from_slice(&[0xff; 8]);
                input.extend(c.rng.rbytes(20));
                c.l.count("mutated_inputs");
            }
            2 if !input.is_empty() => {
                let k = c.rng.below(input.len());
                input.truncate(k);
                c.l.count("mutated_inputs");
            }
            _ => {}
        }
        check_with_prefixes(c, &input, 700);
        if c.index < 2 {
            c.l.sample(Json::obj().with("pair_lengths", pairs.iter().map(|(a, b)| format!("{}/{}", a.len(), b.len())).collect::<Vec<_>>()).with("decoder_input_hex", hex_cap(&input, 48)));
        }
    });

    // ---- random byte strings ----------------------------------------------------------------
    let n = ctx.size(40_000, 2_000_000);
    ctx.run_cases("random-bytes", n, |c| {
        let len = if c.rng.chance(1, 10) { c.rng.below(4096) } else { c.rng.below(64) };
        let mut b = c.rng.bytes(len);
        // bias toward small length bytes so that pairs actually decode
        for x in &mut b {
            if c.rng.chance(1, 2) {
                *x &= 0x07;
            } else if c.rng.chance(1, 8) {
                *x = 0x80;
            }
        }
        check_with_prefixes(c, &b, 400);
    });

    // ---- more pairs than any 16-bit quantity (size_hint must stay an upper bound) ---------------
    ctx.run_fixed("many-pairs", 3, |c| {
        // (under Miri only a token size: the point of this workload is the count, not the bytes)
        let small = c.ctx.miri();
        let b: Vec<u8> = match c.index {
            0 => vec![0u8; if small { 600 } else { 80_000 }],                                        // 40 000 empty pairs
            1 => [1u8, 0, b'x'].iter().copied().cycle().take(if small { 600 } else { 210_000 }).collect(), // 70 000 pairs "x" = ""
            _ => vec![0u8; if small { 258 } else { 65_536 + 2 }],
        };
        c.l.evaluations += 1;
        match check_decode(&b) {
            Ok(n) => c.l.add("pairs_in_many_pair_inputs", n as u64),
            Err((sig, msg)) => c.violation(format!("many-pairs:{sig}"), Json::obj().with("input_len", b.len()).with("problem", msg)),
        }
    });

    // ---- over-long lengths must be rejected by the encoder (native only: 2 GiB zero pages) --
    if ctx.scale == Scale::Full {
        ctx.run_fixed("overlong", 1, |c| {
            let big: Vec<u8> = vec![0u8; 1usize << 31];
            // the length prefix of every large pair, byte for byte (a writer that keeps only the head)
            struct Head {
                head: Vec<u8>,
                total: usize,
            }
            impl io::Write for Head {
                fn write(&mut self, b: &[u8]) -> io::Result<usize> {
                    let room = 16usize.saturating_sub(self.head.len());
                    self.head.extend_from_slice(&b[..b.len().min(room)]);
                    self.total += b.len();
                    Ok(b.len())
                }
                fn flush(&mut self) -> io::Result<()> {
                    Ok(())
                }
            }
            for &len in &[1usize << 16, (1 << 24) - 1, 1 << 24, (1 << 24) + 1, (1 << 25) + 5, (1 << 28) + 0x0123_4567, (1 << 30) + 7, (1usize << 31) - 1] {
                for name_side in [true, false] {
                    let (n, v): (&[u8], &[u8]) = if name_side { (&big[..len], b"v") } else { (b"n", &big[..len]) };
                    let mut w = Head { head: Vec::new(), total: 0 };
                    let r = guarded(|| nv::write((n, v), &mut w));
                    let mut want = Vec::new();
                    wire::varint(&mut want, n.len() as u32, false);
                    wire::varint(&mut want, v.len() as u32, false);
                    c.l.count("large_length_prefixes_checked");
                    let ok = matches!(&r, Ok(Ok(k)) if *k == want.len() + n.len() + v.len() && *k == w.total) && w.head.starts_with(&want);
                    if !ok {
                        c.violation("large-length-prefix", Json::obj().with("name_len", n.len()).with("value_len", v.len()).with("got", format!("{r:?}")).with("prefix_hex", crate::json::hex(&w.head[..w.head.len().min(8)])).with("expected_hex", crate::json::hex(&want)));
                    }
                }
            }
            let cases: [(&[u8], &[u8], bool); 4] = [
                (&big[..], b"", false),
                (b"x", &big[..], false),
                (&big[..(1usize << 31) - 1], b"", true),
                (b"", &big[..(1usize << 31) - 1], true),
            ];
            for (n, v, ok) in cases {
                let r = guarded(|| nv::write((n, v), io::sink()));
                c.l.count("overlong_writes");
                let good = match &r {
                    Ok(Ok(w)) => ok && *w == 4 + 1 + n.len() + v.len(),
                    Ok(Err(e)) => !ok && e.kind() == io::ErrorKind::InvalidInput,
                    Err(_) => false,
                };
                if !good {
                    c.violation("overlong-length", Json::obj().with("name_len", n.len()).with("value_len", v.len()).with("got", format!("{r:?}")));
                }
            }
        });
    }

    ctx.gate("enumerated_inputs", 100);
    ctx.gate("roundtrips", 100);
    ctx.gate("prefixes_checked", 1000);
    ctx.finish(
        "exploration",
        "inputs: every byte string of length <=7 over {00,01,02,7f,80,81,ff} and <=10 over {00,01,80} (exhaustive small scope), hostile 4-byte headers \
         (sums around 2^31 and 2^32), pair lists with lengths {0,1,2,5,127,128,129,255,256,300,65535,65536,70000,200000,random<600} encoded by the crate's nv::write \
         (count + canonical bytes checked against the harness encoder), mutated/truncated/non-canonical encodings, random bytes; each input AND its prefixes \
         (all prefixes for short inputs, structural + random cuts otherwise) through NVIter<&[u8]> and NVIter<&mut [u8]>: pairs equal the harness decoder's, \
         name/value addresses equal input base + model offsets (zero-copy, consecutive), into_inner is exactly the undecoded suffix, fused after None, size_hint upper bound respected, no panic. \
         distinct_nontrivial = distinct inputs (hash set) that decode >=1 pair or contain a 4-byte length form",
        &["harness decoder (wire.rs) is the specification", "prefix-monotonicity follows from impl==model on every prefix, the model being prefix-monotone by construction"],
        false,
        evidence,
    )
}
