//! C08 — the server never waits for client input while it owes a reply.
//! Closed-loop peer + executor that polls only woken tasks; invariant at every input-suspension
//! point and quiescence (= wait-for cycle) detection.

use std::path::PathBuf;

use crate::c07::{conn_model, prefix_match, report, ReqModel};
use crate::conn::{self, Action, Barrier, ConnCase, End, Need};
use crate::ev::{Case, Ctx};
use crate::gen::{self, Extra, ReqSpec};
use crate::handler;
use crate::json::Json;
use crate::rng::{mix, Rng};
use crate::spec::{self, ModelReply, OutRec, Reply};
use crate::transport::Behaviour;
use crate::wire;

const QUERIES: [Extra; 3] = [Extra::GetValues, Extra::GetValues, Extra::UnknownType];

fn gen_case(rng: &mut Rng) -> ConnCase {
    let buffer = *rng.pick(&[24usize, 64, 256, 8192, 8192]);
    let eff = buffer.max(24);
    let k = 1 + rng.below(3);
    let mut wire_bytes = Vec::new();
    let mut reqs = Vec::new();
    let mut scripts = Vec::new();
    let mut ends = Vec::new();
    let base_id = gen::gen_request_id(rng);
    let query = |rng: &mut Rng, out: &mut Vec<u8>| {
        let k = *rng.pick(&QUERIES);
        gen::push_extra(rng, out, k, 0, 1, eff - 13);
    };
    if rng.chance(1, 3) {
        query(rng, &mut wire_bytes); // before the first request
    }
    for i in 0..k {
        let role = gen::gen_role(rng);
        let last = i + 1 == k;
        let flags = (rng.u8() & !1) | u8::from(!last || rng.chance(1, 2));
        let spec = ReqSpec {
            id: if rng.chance(1, 2) { base_id } else { gen::gen_request_id(rng) },
            role,
            flags,
            max_pairs: 3,
            max_pair: eff - 13,
            big_pairs: false,
            max_stream_records: 4,
            big_records: false,
            extra_pct_pre: *rng.pick(&[0usize, 25]),
            extra_pct_stream: *rng.pick(&[0usize, 30]),
            tag_base: (i as u8) & 1,
            extras_pre: &QUERIES,
            extras_stream: &QUERIES,
            marker: None,
        };
        let b = gen::push_request(rng, &mut wire_bytes, &spec);
        // a query in the same stretch of bytes as the end of the request
        if rng.chance(1, 2) {
            query(rng, &mut wire_bytes);
        }
        let mut b = b;
        b.end = wire_bytes.len();
        scripts.push(handler::gen_script(rng, role, false));
        reqs.push(b);
        ends.push(wire_bytes.len());
        if rng.chance(1, 4) {
            query(rng, &mut wire_bytes); // between requests (sent after EndRequest i)
            if let Some(r) = reqs.last_mut() {
                // these bytes belong to the span of the next request for the model
                let _ = r;
            }
        }
    }
    // trailing bytes after the last request belong to its span for the reference model
    if let Some(r) = reqs.last_mut() {
        r.end = wire_bytes.len();
    }
    // spans: request i covers [end of i-1, end of i)
    let mut barriers: Vec<Barrier> = ends.iter().enumerate().map(|(i, &e)| Barrier { offset: e, need: Need::Ended(i + 1) }).collect();
    // fix request spans so that between-request queries belong to the following request
    for i in 0..reqs.len() - 1 {
        reqs[i].end = ends[i];
    }
    let beh = Behaviour::random(rng);
    let conns = *rng.pick(&[1usize, 10]);
    let mut case = ConnCase {
        wire: wire_bytes,
        reqs,
        scripts,
        buffer,
        conns,
        beh,
        barriers: Vec::new(),
        max_piece: *rng.pick(&[1usize, 8, 40, 100_000, 100_000]),
        close_at_end: true,
        desc: Json::Null,
    };
    // closed loop: after every reply-eliciting record the peer waits for the reply
    if let Ok(model) = conn_model(&case) {
        let mut n = 0;
        for m in &model {
            for r in &m.replies {
                if matches!(r.reply, Reply::Values { empty_body: true, .. }) {
                    continue;
                }
                n += 1;
                barriers.push(Barrier { offset: r.src_end, need: Need::Replies(n) });
            }
        }
    }
    barriers.sort_by_key(|b| b.offset);
    case.barriers = barriers;
    case.desc = Json::obj()
        .with("buffer_size", buffer)
        .with("requests", k)
        .with("roles", case.reqs.iter().map(|r| r.preamble.role).collect::<Vec<_>>())
        .with("wire_len", case.wire.len())
        .with("peer_max_piece", case.max_piece)
        .with("transport", format!("{:?}", case.beh))
        .with("barriers", case.barriers.iter().map(|b| format!("{}:{:?}", b.offset, b.need)).collect::<Vec<_>>())
        .with("scripts", case.scripts.iter().map(|s| format!("{:?}", s.ops)).collect::<Vec<_>>());
    case
}

fn mgmt_records(out: &[u8]) -> Vec<OutRec> {
    match spec::decode_output(out) {
        Ok((recs, _)) => recs.into_iter().filter(|r| matches!(r, OutRec::Values { .. } | OutRec::Unknown { .. })).collect(),
        Err(_) => Vec::new(),
    }
}

/// Number of non-optional replies owed for complete records within wire[..upto].
fn owed(all: &[ModelReply], upto: usize) -> usize {
    let mut must = 0;
    for (k, r) in all.iter().enumerate() {
        if r.src_end <= upto && !matches!(r.reply, Reply::Values { empty_body: true, .. }) {
            must = k + 1;
        }
    }
    must
}

fn run_one(c: &mut Case) {
    let case = gen_case(&mut c.rng);
    let model: Vec<ReqModel> = match conn_model(&case) {
        Ok(m) => m,
        Err(e) => {
            c.violation("harness-model", Json::obj().with("problem", e).with("connection", case.desc.clone()));
            return;
        }
    };
    let all: Vec<ModelReply> = model.iter().flat_map(|m| m.replies.iter().cloned()).collect();
    let conns = case.conns.to_string();
    let rng = Rng::new(c.rng.next_u64());
    let (mut w, _runner) = conn::build_world(&case, rng);
    let mut breach: Option<(String, String)> = None;
    let mut suspensions = 0u64;
    let mut suspensions_with_owed = 0u64;
    let end = w.run(300_000, |w, a| {
        if breach.is_some() || !matches!(a, Action::Poll(_)) {
            return;
        }
        if w.exec.is_done(w.main_task) {
            return;
        }
        // the task just returned Pending: is it suspended waiting for client input only?
        let (waiting, read_total, out) = {
            let p = w.pipe.lock().unwrap_or_else(std::sync::PoisonError::into_inner);
            (p.waiting_for_input_only(), p.read_total, p.outbox.clone())
        };
        if !waiting || !w.exec.runnable().is_empty() {
            return;
        }
        suspensions += 1;
        let must = owed(&all, read_total);
        if must == 0 {
            return;
        }
        suspensions_with_owed += 1;
        let got = mgmt_records(&out);
        let have = prefix_match(&all, &got, &conns).unwrap_or(0);
        if have < must {
            let (phase, source) = {
                let l = w.log.lock().unwrap();
                let running = l.invocations.iter().any(|i| !i.finished);
                let s = conn::summarize(&out, &w.peer.request_ids);
                if running {
                    ("handler_read", "fresh_read")
                } else if s.ended < l.invocations.len() {
                    ("close_drain", "fresh_read")
                } else {
                    ("between_requests", "buffered_leftover")
                }
            };
            breach = Some((
                format!("owed-reply-at-input-suspension phase={phase} source={source}"),
                format!(
                    "the connection task is suspended waiting for client input (reader holds its waker, no bytes available, writer idle) after reading {read_total} bytes, \
                     but only {have} of the {must} replies owed for complete records already read have been written (missing: reply to the record at wire offset {})",
                    all[must - 1].src_off
                ),
            ));
        }
    });
    c.l.add("executor_steps", w.steps);
    c.l.add("input_suspension_points_checked", suspensions);
    c.l.add("suspension_points_with_owed_replies", suspensions_with_owed);
    c.l.state(w.hist);
    if let Some((sig, msg)) = breach {
        report(c, &case, &w, &sig, msg);
        return;
    }
    match end {
        End::Budget => {
            c.l.count("step_budget_exhausted");
        }
        End::Quiescent => {
            let out = w.pipe.lock().unwrap_or_else(std::sync::PoisonError::into_inner).outbox.clone();
            let s = conn::summarize(&out, &w.peer.request_ids);
            let blocked = w.peer.blocked_on(&s);
            let (phase, source) = {
                let l = w.log.lock().unwrap();
                if l.invocations.iter().any(|i| !i.finished) {
                    ("handler_read", "fresh_read")
                } else if s.ended < l.invocations.len() {
                    ("close_drain", "fresh_read")
                } else {
                    ("between_requests", "buffered_leftover")
                }
            };
            let sig = match blocked.map(|b| b.need) {
                Some(Need::Replies(_)) => format!("wait-for-cycle phase={phase} source={source}"),
                _ => "connection-stalled".to_string(),
            };
            report(
                c,
                &case,
                &w,
                &sig,
                format!(
                    "quiescent: no runnable task, no enabled environment action, Token::run unfinished; the peer has sent {}/{} bytes and waits for {:?}; output has {} management replies and {} EndRequests",
                    w.peer.sent,
                    w.peer.wire.len(),
                    blocked,
                    s.replies,
                    s.ended
                ),
            );
        }
        End::Finished => {
            // every query the peer waited for was answered (otherwise the peer could not have finished);
            // if the connection ended early (no keep-conn) remaining queries were never sent.
            c.l.count("connections_completed");
            let out = w.pipe.lock().unwrap_or_else(std::sync::PoisonError::into_inner).outbox.clone();
            c.l.add("replies_observed", mgmt_records(&out).len() as u64);
            let mut h = case.beh.class();
            for s in &case.scripts {
                h = mix(h, handler::script_class(s));
            }
            c.l.sig(mix(h, crate::rng::hash_bytes(8, &case.wire[..case.wire.len().min(120)])));
        }
    }
    if c.index < 2 {
        c.l.sample(case.desc.clone());
    }
}

pub fn run(ctx: &Ctx, evidence: Option<&PathBuf>) -> i32 {
    ctx.run_fixed("directed", if ctx.miri() { 2 } else { ctx.dn(400) }, run_one);
    let n = ctx.size3(20_000, 2_000_000, 2);
    ctx.run_cases("closed-loop", n, run_one);
    ctx.gate("connections_completed", 200);
    ctx.gate("input_suspension_points_checked", 1000);
    ctx.gate("suspension_points_with_owed_replies", 200);
    ctx.gate("replies_observed", 200);
    ctx.finish(
        "exploration",
        "closed-loop peer: connections of 1..3 requests with management queries (GetValues with non-empty body, unknown-type records) before the first request, inside the preamble, right after Params, between stream records, \
         directly behind the last record of a request (same stretch of bytes), and between requests; the peer sends bytes in pieces of 1..n (so neighbouring records are grouped into one read or split) and withholds everything after a query until the reply has been decoded from the server's output, \
         and request i+1 until EndRequest i; all handler scripts of the C07 family; transport reads/writes short or Pending. Deterministic executor that polls only woken tasks. \
         Oracle 1 at EVERY poll that leaves the task suspended on the reader only (reader holds the waker, inbox empty, writer idle, nothing runnable): replies owed by the model for all complete records read so far are in the transport log. \
         Oracle 2: quiescence (no runnable task, no enabled environment action) with Token::run unfinished and the peer blocked on a reply = wait-for cycle. \
         distinct_nontrivial = distinct completed (wire digest, script classes, transport class) (set); distinct_states_observed = distinct executor interleavings.",
        &["'indefinitely' is restated as quiescence under an executor that never polls un-woken tasks", "reference model spec.rs decides which records owe a reply"],
        false,
        evidence,
    )
}
