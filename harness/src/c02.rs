//! C02 — input stream extraction delivers exactly the stream's bytes, once, in order.

use std::num::NonZeroUsize;
use std::path::PathBuf;

use fastcgi_server::parser::request;
use fastcgi_server::Config;

use crate::ev::{Case, Ctx, Scale};
use crate::gen::{self, ReqSpec};
use crate::json::{hex_cap, Json};
use crate::rng::{mix, Rng};
use crate::spec::{self, PreOutcome};
use crate::syncdrive::{self as sd, Chunking, Plan, Policy, SDriver};

use crate::wire;

pub fn config(buffer: usize, conns: usize) -> Config {
    let mut c = Config::with_conns(NonZeroUsize::new(conns).expect("nonzero"));
    c.buffer_size = buffer;
    c
}

pub struct Scenario {
    pub bytes: Vec<u8>,
    pub buffer: usize,
    pub conns: usize,
    pub role: u16,
    pub id: u16,
    pub desc: Json,
}

pub fn gen_scenario(rng: &mut Rng, big: bool) -> Scenario {
    let buffer = *rng.pick(&[0usize, 24, 32, 33, 64, 100, 256, 1000, 8192, 8192]);
    let eff = buffer.max(24);
    let role = gen::gen_role(rng);
    let id = gen::gen_request_id(rng);
    let spec = ReqSpec {
        id,
        role,
        flags: rng.u8(),
        max_pairs: 4,
        max_pair: eff - 13,
        big_pairs: false,
        max_stream_records: 12,
        big_records: big && eff >= 256,
        extra_pct_pre: 10,
        extra_pct_stream: *rng.pick(&[0usize, 15, 40]),
        tag_base: 1,
        extras_pre: &gen::EXTRAS_PREAMBLE,
        extras_stream: &gen::EXTRAS_STREAM,
        marker: None,
    };
    let mut bytes = Vec::new();
    let built = gen::push_request(rng, &mut bytes, &spec);
    let conns = *rng.pick(&[1usize, 9, 10, 1000]);
    let desc = Json::obj()
        .with("buffer_size", buffer)
        .with("role", role)
        .with("request_id", id)
        .with("wire_len", bytes.len())
        .with("stream_lens", built.streams.iter().map(|(t, c)| format!("{}:{}", wire::type_name(*t), c.len())).collect::<Vec<_>>())
        .with("param_records", built.preamble.n_param_records);
    Scenario { bytes, buffer, conns, role, id, desc }
}

fn report(c: &mut Case, sc: &Scenario, d: &SDriver, sig: &str, msg: String) {
    c.violation(
        sig,
        Json::obj()
            .with("scenario", sc.desc.clone())
            .with("problem", msg)
            .with("input_hex", hex_cap(&sc.bytes, 20000))
            .with("fed", d.fed)
            .with("output_hex", hex_cap(&d.out_all, 2000))
            .with("actions", d.trace.iter().rev().take(60).rev().cloned().collect::<Vec<_>>()),
    );
}

#[derive(Clone, Default)]
pub struct RunOpts {
    pub early: bool,
    pub check_pre_replies: bool,
    pub chunk_pre: Option<Chunking>,
    pub chunk_stream: Option<Chunking>,
    pub policy: Option<Policy>,
}

/// One scenario through the preamble parser and one random stream-parser schedule.
pub fn run_one(c: &mut Case, sc: &Scenario, early: bool) {
    run_scenario(c, sc, RunOpts { early, ..RunOpts::default() });
}

/// Returns true if the scenario ran to its end without a violation.
pub fn run_scenario(c: &mut Case, sc: &Scenario, opts: RunOpts) -> bool {
    let early = opts.early;
    let cfg = config(sc.buffer, sc.conns);
    let pre = spec::model_preamble(&sc.bytes, 0);
    let PreOutcome::Done(info) = &pre.outcome else {
        c.violation("harness-model-incomplete", Json::obj().with("scenario", sc.desc.clone()).with("model", format!("{:?}", pre.outcome)));
        return false;
    };
    let model = spec::model_streams(&sc.bytes, info.end_off, info.id, info.role);
    let structural = sd::structural_offsets(&sc.bytes);

    // preamble
    let mut chunk = opts.chunk_pre.clone().unwrap_or_else(|| sd::pick_chunking(&mut c.rng, &structural));
    let run = sd::drive_request(request::Parser::new(&cfg), &sc.bytes, 0, sc.bytes.len(), &mut chunk, &mut c.rng, false);
    if let Some((s, m)) = run.problems.first() {
        c.violation(s.clone(), Json::obj().with("scenario", sc.desc.clone()).with("problem", m.clone()).with("phase", "preamble"));
        return false;
    }
    if !run.done {
        c.violation("preamble-not-done", Json::obj().with("scenario", sc.desc.clone()).with("fed", run.fed));
        return false;
    }
    if opts.check_pre_replies {
        match spec::decode_output(&run.out) {
            Ok((recs, tail)) if tail == run.out.len() => {
                if let Err(m) = spec::replies_match(&pre.replies, &recs, &sc.conns.to_string()) {
                    c.violation("preamble-replies", Json::obj().with("scenario", sc.desc.clone()).with("problem", m).with("input_hex", hex_cap(&sc.bytes, 20000)).with("output_hex", hex_cap(&run.out, 2000)));
                    return false;
                }
                c.l.add("replies_checked", recs.len() as u64);
            }
            Ok(_) => {
                c.violation("output-partial-record", Json::obj().with("scenario", sc.desc.clone()).with("phase", "preamble"));
                return false;
            }
            Err(m) => {
                c.violation("output-malformed", Json::obj().with("scenario", sc.desc.clone()).with("problem", m));
                return false;
            }
        }
    }
    let parser = run.parser.expect("parser");
    // two ways to get a stream parser: the direct conversion (shared buffer) or a fresh
    // stream::Parser::new for the extracted Request, re-fed with the returned leftover
    let via_new = c.rng.chance(1, 4);
    let mut start_fed = run.fed;
    let built = crate::ev::guarded(|| {
        if via_new {
            parser.into_request().map(|(req, leftover)| (fastcgi_server::parser::stream::Parser::new(&cfg, req), leftover.len()))
        } else {
            parser.into_stream_parser().map(|p| (p, 0))
        }
    });
    let sp = match built {
        Ok(Ok((p, leftover))) => {
            start_fed -= leftover;
            if via_new {
                c.l.count("stream_parsers_built_with_new");
            }
            p
        }
        Ok(Err(e)) => {
            c.violation("preamble-error", Json::obj().with("scenario", sc.desc.clone()).with("error", sd::err_kind(&e)));
            return false;
        }
        Err(p) => {
            c.violation(crate::ev::panic_signature(&p), Json::obj().with("scenario", sc.desc.clone()).with("panic", p));
            return false;
        }
    };
    let order = wire::role_input_streams(sc.role);
    let mut d = SDriver::new(sp, &sc.bytes, start_fed, sc.bytes.len());
    if d.active() != order.first().copied() {
        let a = d.active();
        report(c, sc, &d, "initial-active-stream", format!("fresh stream parser has active stream {a:?}, role order is {order:?}"));
        return false;
    }
    let pol = opts.policy.clone().unwrap_or_else(|| Policy::random(&mut c.rng));
    let plans: Vec<Plan> = order
        .iter()
        .map(|_| {
            if early && c.rng.chance(1, 2) {
                if c.rng.chance(1, 2) {
                    Plan::ReadAtMost(c.rng.below(200))
                } else {
                    Plan::AfterCalls(1 + c.rng.below(60))
                }
            } else {
                Plan::ReadAll
            }
        })
        .collect();
    let mut chunk2 = opts.chunk_stream.clone().unwrap_or_else(|| sd::pick_chunking(&mut c.rng, &structural));
    sd::run_schedule(&mut d, &mut c.rng, &mut chunk2, &pol, &plans, order, Some(&model));

    // evidence counters
    c.l.add("parse_calls", d.cnt.parse_calls);
    c.l.add("dest_deliveries", d.cnt.dest_deliveries);
    c.l.add("buffer_deliveries", d.cnt.buffer_deliveries);
    c.l.add("compress_calls", d.cnt.compress_calls);
    c.l.add("compress_freed_space", d.cnt.compress_freed);
    c.l.add("partial_stream_consumes", d.cnt.partial_consumes);
    c.l.add("partial_output_consumes", d.cnt.partial_output_consumes);
    c.l.add("held_back_later_stream_records", d.cnt.held_back);
    c.l.add("wedges", d.cnt.wedges);
    c.l.add("exact_buffer_fills", d.cnt.exact_fills);
    c.l.add("zero_length_dest_calls", d.cnt.zero_dest_calls);
    c.l.add("step_budget_exhausted", d.cnt.budget_exhausted);
    c.l.add("advances_after_consume_all_and_compress", d.cnt.tidy_before_advance);
    for s in &d.states {
        c.l.state(*s);
    }

    if let Some((s, m)) = d.problems.first().cloned() {
        report(c, sc, &d, &s, m);
        return false;
    }
    if let Some(e) = &d.err {
        if model.abort_off.is_none() {
            let e = e.clone();
            report(c, sc, &d, "unexpected-error", format!("stream parser failed with {e} on well-formed input"));
        }
        return false;
    }
    if d.cnt.wedges > 0 || d.cnt.budget_exhausted > 0 {
        if std::env::var("C02_DEBUG_WEDGE").is_ok() {
            eprintln!("WEDGE {}:{} {} fed={} trace={:?}", c.workload, c.index, sc.desc.render(), d.fed, d.trace.iter().rev().take(12).rev().collect::<Vec<_>>());
        }
        return true; // inconclusive for this case (counted)
    }
    // final oracle: every stream read to its end equals E(s)
    for (i, &t) in order.iter().enumerate() {
        let Some(e) = d.epochs.iter().find(|e| e.stream == Some(t)) else {
            report(c, sc, &d, "stream-never-active", format!("stream {t} never became active"));
            return false;
        };
        let si = &model.streams[i];
        if plans[i] == Plan::ReadAll {
            if !e.end_seen {
                report(c, sc, &d, "stream-end-missing", format!("all input fed but stream_end never reported for stream {t}"));
                return false;
            }
            if e.delivered != si.content {
                report(c, sc, &d, "stream-content-mismatch", format!("stream {t}: delivered {} bytes, content has {}", e.delivered.len(), si.content.len()));
                return false;
            }
            c.l.count("streams_read_to_end");
        } else {
            c.l.count("streams_left_early");
        }
    }
    // everything was parsed: replies owed for the stream phase, in order, nothing else
    let max_conns = sc.conns.to_string();
    match spec::decode_output(&d.out_all) {
        Ok((recs, tail)) => {
            if tail != d.out_all.len() {
                report(c, sc, &d, "output-partial-record", format!("parser output ends with an incomplete record ({} stray bytes)", d.out_all.len() - tail));
                return false;
            }
            if let Err(m) = spec::replies_match(&model.replies, &recs, &max_conns) {
                report(c, sc, &d, "stream-phase-replies", m);
                return false;
            }
            c.l.add("replies_checked", recs.len() as u64);
        }
        Err(m) => {
            report(c, sc, &d, "output-malformed", m);
            return false;
        }
    }
    // unread remainder after everything was parsed: empty suffix at a record boundary
    if let Some(off) = d.probe_leftover() {
        if off != model.scanned_to {
            report(c, sc, &d, "leftover-offset", format!("unread remainder starts at offset {off}, expected {}", model.scanned_to));
            return false;
        }
    } else if let Some((s, m)) = d.problems.first().cloned() {
        report(c, sc, &d, &s, m);
        return false;
    }
    let total: usize = model.streams.iter().map(|s| s.content.len()).sum();
    if total > 0 {
        let mut h = mix(sc.bytes.len() as u64, crate::rng::hash_bytes(7, &sc.bytes[..sc.bytes.len().min(256)]));
        h = mix(h, crate::rng::hash_str(chunk2.family()) ^ (pol.dest_pct as u64) << 8 ^ (pol.compress_pct as u64) << 16);
        c.l.sig(h);
    }
    c.l.count(&format!("chunking_{}", chunk2.family()));
    true
}

/// Fixed, seed-independent cases that reach every gated observation.
pub fn directed(ctx: &Ctx) {
    ctx.run_fixed("directed", ctx.dn(400), |c| {
        let sc = gen_scenario(&mut c.rng, c.index % 4 == 0);
        run_one(c, &sc, c.index % 3 == 0);
        if c.index == 5 {
            c.l.sample(sc.desc.clone());
        }
    });
}

pub fn run(ctx: &Ctx, evidence: Option<&PathBuf>) -> i32 {
    directed(ctx);
    let n = ctx.size3(60_000, 6_000_000, 10);
    ctx.run_cases("schedules", n, |c| {
        let big = ctx.scale == Scale::Full && c.rng.chance(1, 6);
        let sc = gen_scenario(&mut c.rng, big);
        let early = c.rng.chance(1, 3);
        run_one(c, &sc, early);
        if c.index == 1 {
            c.l.sample(sc.desc.clone());
        }
    });
    ctx.gate("dest_deliveries", 50);
    ctx.gate("buffer_deliveries", 50);
    ctx.gate("compress_freed_space", 50);
    ctx.gate("held_back_later_stream_records", 5);
    ctx.gate("partial_stream_consumes", 20);
    ctx.gate("streams_read_to_end", 100);
    ctx.gate("replies_checked", 20);
    ctx.finish(
        "exploration",
        "generated requests (all roles, 0..12 records per input stream with lengths {1,2,7,8,9,16,100,255,256,1000,4096,65535}, padding 0..255, tagged payload bytes, interleaved GetValues / unknown-type / \
         stale Params / duplicate+foreign BeginRequest / foreign-id and out-of-role stream records, buffer sizes {0,24,32,33,64,100,256,1000,8192}) x read chunkings {1-byte, fill, random, 50..256, surgical around structural offsets} \
         x random caller schedules (dest=Some(0..n)/None mixes, partial consume_stream, compress at arbitrary points, consume_output(k), set_stream(next) after stream_end, and in a third of the cases early: after k delivered bytes or after k parse calls, i.e. mid-payload / mid-padding / inside a management record). Oracle after EVERY action: \
         stream_buffer/output_buffer equal shadow copies, Status counts equal observed growth, delivered bytes are a prefix of the model's E(s), stream_end only once the terminator header was fed and all of E(s) delivered, \
         stream_end persistent, no stall once the terminator is buffered; at the end delivered == E(s), decoded replies == model replies, unread remainder empty at the scanned end. \
         distinct_nontrivial = distinct (input digest, chunking family, schedule policy) with non-empty stream content (set).",
        &["reference model spec.rs (independent scanner + stream semantics)", "cases that wedge (no buffer space after consume+compress) or exhaust the step budget are counted, not judged"],
        false,
        evidence,
    )
}
