//! Deterministic single-threaded executor: a task is polled only after its waker fired
//! (a busy-polling executor would mask missing flushes and lost wake-ups).

use std::future::Future;
use std::pin::Pin;
use std::sync::{Arc, Mutex};
use std::task::{Context, Poll, Wake, Waker};

pub type LocalFuture<'a> = Pin<Box<dyn Future<Output = ()> + 'a>>;

#[derive(Default)]
pub struct RunQueue {
    pub woken: Vec<usize>,
    pub wake_count: u64,
}

struct TaskWaker {
    id: usize,
    q: Arc<Mutex<RunQueue>>,
}

impl Wake for TaskWaker {
    fn wake(self: Arc<Self>) {
        self.wake_by_ref();
    }
    fn wake_by_ref(self: &Arc<Self>) {
        let mut q = self.q.lock().unwrap();
        q.wake_count += 1;
        if !q.woken.contains(&self.id) {
            q.woken.push(self.id);
        }
    }
}

pub struct Exec<'a> {
    tasks: Vec<Option<LocalFuture<'a>>>,
    wakers: Vec<Waker>,
    pub q: Arc<Mutex<RunQueue>>,
    pub polls: u64,
    pub polls_per_task: Vec<u64>,
}

impl<'a> Default for Exec<'a> {
    fn default() -> Self {
        Self::new()
    }
}

impl<'a> Exec<'a> {
    pub fn new() -> Self {
        Self { tasks: Vec::new(), wakers: Vec::new(), q: Arc::new(Mutex::new(RunQueue::default())), polls: 0, polls_per_task: Vec::new() }
    }

    /// Adds a task; it starts out runnable.
    pub fn spawn(&mut self, f: LocalFuture<'a>) -> usize {
        let id = self.tasks.len();
        self.tasks.push(Some(f));
        self.wakers.push(Waker::from(Arc::new(TaskWaker { id, q: self.q.clone() })));
        self.polls_per_task.push(0);
        self.q.lock().unwrap().woken.push(id);
        id
    }

    /// Tasks whose waker fired and that are not finished.
    pub fn runnable(&self) -> Vec<usize> {
        let q = self.q.lock().unwrap();
        q.woken.iter().copied().filter(|&i| self.tasks[i].is_some()).collect()
    }

    pub fn is_done(&self, id: usize) -> bool {
        self.tasks[id].is_none()
    }

    pub fn all_done(&self) -> bool {
        self.tasks.iter().all(Option::is_none)
    }

    pub fn waker(&self, id: usize) -> Waker {
        self.wakers[id].clone()
    }

    /// Polls task `id` once (it must be runnable). Returns true if it completed.
    pub fn poll(&mut self, id: usize) -> bool {
        {
            let mut q = self.q.lock().unwrap();
            q.woken.retain(|&x| x != id);
        }
        let Some(fut) = self.tasks[id].as_mut() else { return true };
        self.polls += 1;
        self.polls_per_task[id] += 1;
        let waker = self.wakers[id].clone();
        let mut cx = Context::from_waker(&waker);
        match crate::ev::timed(|| fut.as_mut().poll(&mut cx)) {
            Poll::Ready(()) => {
                self.tasks[id] = None;
                true
            }
            Poll::Pending => false,
        }
    }

    /// Drops a task without completing it (cancellation).
    pub fn cancel(&mut self, id: usize) {
        self.tasks[id] = None;
    }
}

/// A waker that only counts (for futures polled by hand).
pub struct CountWaker {
    pub n: std::sync::atomic::AtomicU64,
}
impl CountWaker {
    pub fn new() -> Arc<Self> {
        Arc::new(Self { n: std::sync::atomic::AtomicU64::new(0) })
    }
    pub fn count(&self) -> u64 {
        self.n.load(std::sync::atomic::Ordering::SeqCst)
    }
}
impl Wake for CountWaker {
    fn wake(self: Arc<Self>) {
        self.n.fetch_add(1, std::sync::atomic::Ordering::SeqCst);
    }
    fn wake_by_ref(self: &Arc<Self>) {
        self.n.fetch_add(1, std::sync::atomic::Ordering::SeqCst);
    }
}
