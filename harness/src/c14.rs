//! C14 — graceful shutdown: in-flight requests finish, nothing new starts, waiter woken.

use std::cell::RefCell;
use std::future::Future;
use std::path::PathBuf;
use std::pin::Pin;
use std::rc::Rc;
use std::sync::atomic::{AtomicBool, Ordering};
use std::sync::{Arc, Mutex};
use std::task::{Context, Poll, Waker};

use fastcgi_server::async_io::{Runner, Token};

use crate::c02::config;
use crate::c07::{check_conn, conn_model, report};
use crate::conn::{self, ConnCase, End, GenOpts};
use crate::ev::{Case, Ctx, Scale};
use crate::exec::CountWaker;
use crate::handler::{Op, Script};
use crate::json::Json;
use crate::rng::{mix, Rng};
use crate::threads::{self, FinishGuard, Group};

fn take_tokens(r: &Runner, n: usize) -> Option<Vec<Token>> {
    let mut v = Vec::new();
    for _ in 0..n {
        let mut f = Box::pin(r.get_token());
        let w = Waker::from(CountWaker::new());
        let mut cx = Context::from_waker(&w);
        match f.as_mut().poll(&mut cx) {
            Poll::Ready(t) => v.push(t),
            Poll::Pending => return None,
        }
    }
    Some(v)
}

fn poll_with<F: Future + ?Sized>(f: &mut Pin<Box<F>>, cw: &Arc<CountWaker>) -> Poll<F::Output> {
    let w = Waker::from(cw.clone());
    let mut cx = Context::from_waker(&w);
    f.as_mut().poll(&mut cx)
}

/// Run A: the last token is dropped inside WaitGroupFuture::poll (hook windows), and all the
/// sequential orders around it.
fn hook_windows(c: &mut Case) {
    let n_tokens = c.rng.below(5);
    let runner = config(64, 8).async_runner();
    let clone = runner.clone();
    let Some(tokens) = take_tokens(&runner, n_tokens) else {
        c.violation("harness-tokens", Json::obj().with("problem", "cannot take tokens"));
        return;
    };
    // tokens of a clone must not delay the original's shutdown
    let clone_tokens = if c.rng.chance(1, 2) { take_tokens(&clone, 1 + c.rng.below(2)) } else { None };
    let tokens = Rc::new(RefCell::new(tokens));
    let mut fut = Box::pin(runner.shutdown());
    let mut trace: Vec<String> = vec![format!("{n_tokens} live token(s) of the runner, {} of a clone; shutdown()", clone_tokens.as_ref().map_or(0, Vec::len))];
    let mode = c.rng.below(4); // 0: drop at wg_poll:upgraded, 1: at wg_poll:registered, 2/3: sequential only
    let fail = |c: &mut Case, sig: &str, msg: String, trace: &[String]| {
        c.violation(sig, Json::obj().with("problem", msg).with("history", trace.to_vec()));
    };
    let mut wakers: Vec<Arc<CountWaker>> = vec![CountWaker::new()];
    let mut last_registered = 0usize; // index of the waker used by the most recent Pending poll
    let mut ready = false;
    // a few sequential polls / partial drops first
    for _ in 0..c.rng.below(7) {
        if c.rng.chance(1, 3) && tokens.borrow().len() > 1 {
            tokens.borrow_mut().pop();
            trace.push("drop one token (not the last)".into());
        } else {
            // a fresh waker, the latest one, or an EARLIER one again (A, B, A: a future that
            // caches the waker it registered must notice every change)
            let wi = match c.rng.below(3) {
                0 => {
                    wakers.push(CountWaker::new());
                    wakers.len() - 1
                }
                1 => wakers.len() - 1,
                _ => c.rng.below(wakers.len()),
            };
            if wi + 1 < wakers.len() {
                c.l.count("polls_with_an_earlier_waker_again");
            }
            let live = tokens.borrow().len();
            let r = poll_with(&mut fut, &wakers[wi]);
            trace.push(format!("poll(shutdown future) with waker #{wi} -> {}", if r.is_ready() { "Ready" } else { "Pending" }));
            if r.is_ready() {
                if live > 0 {
                    fail(c, "shutdown-ready-with-live-tokens", format!("the shutdown future completed while {live} token(s) of the runner were alive"), &trace);
                    return;
                }
                ready = true;
                break;
            }
            if live == 0 {
                fail(c, "shutdown-pending-without-tokens", "the shutdown future returned Pending although no token of the runner is alive".into(), &trace);
                return;
            }
            last_registered = wi;
        }
    }
    if !ready {
        let live = tokens.borrow().len();
        if live > 0 && mode < 2 {
            // force the last drop into the window
            let target = if mode == 0 { "wg_poll:upgraded" } else { "wg_poll:registered" };
            let t2 = tokens.clone();
            let fired = Rc::new(RefCell::new(false));
            let f2 = fired.clone();
            fastcgi_server::verif::set_sched_hook(Some(Box::new(move |name| {
                if name == target && !*f2.borrow() {
                    *f2.borrow_mut() = true;
                    t2.borrow_mut().clear();
                }
            })));
            wakers.push(CountWaker::new());
            let wi = wakers.len() - 1;
            let before = wakers[wi].count();
            let r = poll_with(&mut fut, &wakers[wi]);
            fastcgi_server::verif::set_sched_hook(None);
            trace.push(format!("poll(shutdown future) with waker #{wi}; all {live} remaining token(s) dropped at {target} -> {}", if r.is_ready() { "Ready" } else { "Pending" }));
            if !*fired.borrow() {
                // the window was not reached (e.g. the poll took another path)
                c.l.count("hook_window_not_reached");
                return;
            }
            c.l.count(if mode == 0 { "last_drop_at_upgraded" } else { "last_drop_at_registered" });
            if r.is_pending() {
                // the poll in progress saw a live group: the waker it registered must be woken
                if wakers[wi].count() == before {
                    fail(
                        c,
                        "lost-wakeup-in-poll-window",
                        format!("the last token was dropped at {target} inside WaitGroupFuture::poll; the poll returned Pending and the waker it registered was never woken"),
                        &trace,
                    );
                    return;
                }
                let r2 = poll_with(&mut fut, &wakers[wi]);
                trace.push(format!("poll again -> {}", if r2.is_ready() { "Ready" } else { "Pending" }));
                if r2.is_pending() {
                    fail(c, "shutdown-never-ready", "after the last token was dropped and the waker fired the shutdown future is still Pending".into(), &trace);
                    return;
                }
            }
        } else {
            // sequential: drop everything, then the most recently registered waker must have fired
            let had_pending_poll = trace.iter().any(|t| t.contains("-> Pending"));
            let before = wakers[last_registered].count();
            tokens.borrow_mut().clear();
            trace.push("drop all remaining tokens".into());
            if live > 0 && had_pending_poll && wakers[last_registered].count() == before {
                fail(c, "lost-wakeup-sequential", format!("the last token was dropped after a Pending poll registered waker #{last_registered}; that waker was not woken"), &trace);
                return;
            }
            let wi = wakers.len() - 1;
            let r = poll_with(&mut fut, &wakers[wi]);
            trace.push(format!("poll(shutdown future) -> {}", if r.is_ready() { "Ready" } else { "Pending" }));
            if r.is_pending() {
                fail(c, "shutdown-never-ready", "no token of the runner is alive but the shutdown future is Pending (do tokens of a clone delay it?)".into(), &trace);
                return;
            }
            c.l.count("sequential_orders");
        }
    }
    if clone_tokens.is_some() {
        c.l.count("runs_with_live_clone_tokens");
    }
    drop(clone_tokens);
    c.l.sig(mix(crate::rng::hash_str(&trace.join("|")), n_tokens as u64));
    if c.index == 7 {
        c.l.sample(Json::obj().with("history", trace));
    }
}

/// Run B: shutdown requested at every executor step of a scripted connection.
fn shutdown_points(c: &mut Case, scale: Scale) {
    let pipelined = c.rng.chance(1, 2);
    let mut case: ConnCase = conn::gen_conn(&mut c.rng, &GenOpts { max_requests: 3, extra_pct: 10, big: false, keep_conn_pct: 100, no_begin_extras: false });
    if case.wire.len() > 3000 {
        return;
    }
    // (a role without input streams has no terminator behind which look-ahead could wait: the stream
    // parser, active stream None, would interpret a pipelined BeginRequest itself — see §9.4)
    let pipelined = pipelined && case.reqs.iter().all(|r| r.preamble.role != crate::wire::AUTHORIZER);
    if pipelined {
        conn::make_pipelined(&mut case);
    }
    if !pipelined && c.rng.chance(1, 4) {
        // a handler that returns early but spans several polls (so that shutdown can be requested
        // while it runs): for a Filter this leaves Request::close to wait for the Data stream
        if let Some(k) = (0..case.reqs.len()).find(|&k| case.reqs[k].preamble.role == crate::wire::FILTER) {
            let n = 1 + c.rng.below(3);
            case.scripts[k] = Script { ops: vec![Op::Yield; n], propagate: true, status: case.scripts[k].status };
            c.l.count("bases_with_an_early_returning_filter_handler");
        }
    }
    let Ok(model) = conn_model(&case) else { return };
    let seed = c.rng.next_u64();
    // clean run: how many steps does the connection take?
    let (mut w0, _r0) = conn::build_world(&case, Rng::new(seed));
    if w0.run(300_000, |_, _| {}) != End::Finished {
        return;
    }
    let total_steps = w0.steps;
    let stride = match scale {
        Scale::Full => (total_steps / 160).max(1),
        Scale::San => (total_steps / 30).max(1),
        Scale::Miri => (total_steps / 4).max(1),
    };
    if c.index == 0 {
        c.l.sample(case.desc.clone().with("pipelined", pipelined).with("clean_run_steps", total_steps));
    }
    let mut s = 0;
    while s <= total_steps + 1 {
        let (mut w, runner) = conn::build_world(&case, Rng::new(seed));
        let fut_slot: Rc<RefCell<Option<fastcgi_server::async_io::Runner>>> = Rc::new(RefCell::new(Some(runner)));
        let shutdown_ready_at: Rc<RefCell<Option<u64>>> = Rc::new(RefCell::new(None));
        let sd_future: Rc<RefCell<Option<Pin<Box<dyn Future<Output = ()>>>>>> = Rc::new(RefCell::new(None));
        {
            let (fs, sf) = (fut_slot.clone(), sd_future.clone());
            w.shutdown_at = Some(s);
            w.shutdown_fn = Some(Box::new(move || {
                if let Some(r) = fs.borrow_mut().take() {
                    *sf.borrow_mut() = Some(Box::pin(r.shutdown()));
                }
            }));
        }
        // the shutdown future is polled by hand right after the request and then only when woken
        let sd_waker = CountWaker::new();
        let mut sd_seen = 0u64;
        let mut reads_at_shutdown: Option<u64> = None;
        let mut running_at_shutdown = false;
        let end = w.run(300_000, |w, a| {
            let poll_it = match a {
                conn::Action::Shutdown => {
                    reads_at_shutdown = Some(w.pipe.lock().unwrap_or_else(std::sync::PoisonError::into_inner).read_calls);
                    // a request is in flight while its handler runs or Request::close is still draining / writing
                    let (unfinished, started) = {
                        let l = w.log.lock().unwrap();
                        (l.invocations.iter().any(|i| !i.finished), l.invocations.len())
                    };
                    let ended = w.out_summary().ended;
                    running_at_shutdown = unfinished || ended < started;
                    true
                }
                _ => sd_waker.count() > sd_seen,
            };
            if poll_it && shutdown_ready_at.borrow().is_none() {
                if let Some(f) = sd_future.borrow_mut().as_mut() {
                    sd_seen = sd_waker.count();
                    let wk = Waker::from(sd_waker.clone());
                    let mut cx = Context::from_waker(&wk);
                    if f.as_mut().poll(&mut cx).is_ready() {
                        *shutdown_ready_at.borrow_mut() = Some(w.steps);
                    }
                }
            }
        });
        c.l.evaluations += 1;
        c.l.count("shutdown_points");
        let what = format!("shutdown requested at step {s} of {total_steps}{}", if pipelined { " (pipelining client)" } else { "" });
        match end {
            End::Budget => {
                c.l.count("step_budget_exhausted");
                s += stride;
                continue;
            }
            End::Quiescent => {
                report(c, &case, &w, "not-stopped-after-shutdown", format!("[{what}] quiescent with Token::run unfinished: the connection was not woken / did not stop"));
                return;
            }
            End::Finished => {}
        }
        let invs = w.log.lock().unwrap().invocations.clone();
        let out = w.pipe.lock().unwrap_or_else(std::sync::PoisonError::into_inner).outbox.clone();
        let Some(sd_step) = w.shutdown_done_at else {
            // the connection finished before the shutdown step: plain C07 situation
            c.l.count("connection_finished_before_shutdown_step");
            s += stride;
            continue;
        };
        // no handler invocation begins in a poll that started after the request was made
        if let Some((i, inv)) = invs.iter().enumerate().find(|(_, inv)| inv.started_at > sd_step) {
            report(c, &case, &w, "handler-started-after-shutdown", format!("[{what}] handler invocation #{i} began at step {}, the shutdown request was made at step {sd_step}", inv.started_at));
            return;
        }
        // a management reply being written by the idle / preamble-parsing connection may be cut off by
        // the stop (the connection is dropped); records of started requests must be complete
        let out = {
            let (_, tail) = crate::wire::scan(&out);
            if tail < out.len() {
                c.l.count("partial_reply_cut_by_shutdown");
            }
            out[..tail].to_vec()
        };
        // requests whose handler had started complete normally, with their full epilogue
        if let Err((sig, msg)) = check_conn(&case, &model, &out, &invs, invs.len(), c.l) {
            report(c, &case, &w, &sig, format!("[{what}] {msg}"));
            return;
        }
        // an idle / mid-preamble connection stops without reading further
        if !running_at_shutdown {
            let after = w.pipe.lock().unwrap_or_else(std::sync::PoisonError::into_inner).read_calls;
            if let Some(before) = reads_at_shutdown {
                if after > before {
                    report(c, &case, &w, "read-after-shutdown", format!("[{what}] no handler was running, yet {} further transport read(s) were issued after the shutdown request", after - before));
                    return;
                }
            }
            c.l.count("shutdown_while_idle_or_in_preamble");
        } else {
            c.l.count("shutdown_while_handler_running");
        }
        // the shutdown future completes only after Token::run returned, and it is woken for it
        match (*shutdown_ready_at.borrow(), w.main_finished_at) {
            (Some(r), Some(m)) if r >= m => {}
            (Some(r), m) => {
                report(c, &case, &w, "shutdown-ready-too-early", format!("[{what}] the shutdown future completed at step {r}, Token::run returned at {m:?}"));
                return;
            }
            (None, _) => {
                // last chance: poll it if it was woken
                let mut ok = false;
                if sd_waker.count() > sd_seen {
                    if let Some(f) = sd_future.borrow_mut().as_mut() {
                        let wk = Waker::from(sd_waker.clone());
                        let mut cx = Context::from_waker(&wk);
                        ok = f.as_mut().poll(&mut cx).is_ready();
                    }
                }
                if !ok {
                    report(c, &case, &w, "shutdown-waiter-not-woken", format!("[{what}] Token::run returned and its token is gone, but the shutdown future was never woken / is still Pending"));
                    return;
                }
            }
        }
        c.l.state(mix(w.hist, s));
        c.l.sig(mix(mix(seed, s), 0x5d));
        s += stride;
    }
    c.l.sig(mix(crate::rng::hash_bytes(14, &case.wire[..case.wire.len().min(200)]), u64::from(pipelined)));
    if pipelined {
        c.l.count("pipelined_bases");
    }
}

/// Run C: real threads dropping tokens while another thread awaits the shutdown future.
fn thread_race(c: &mut Case, rounds: usize) {
    for _ in 0..rounds {
        let n = 1 + c.rng.below(8);
        let runner = config(64, 16).async_runner();
        let Some(tokens) = take_tokens(&runner, n) else { return };
        let fut = runner.shutdown();
        // the droppers are members of the group: quiescence requires all of them to have finished
        let group = Group::new(n + 1);
        let done = Arc::new(AtomicBool::new(false));
        let live = Arc::new(Mutex::new(n));
        let early = Arc::new(AtomicBool::new(false));
        let spins: Vec<u32> = (0..n).map(|_| c.rng.below(200) as u32).collect();
        std::thread::scope(|sc| {
            for (t, spin) in tokens.into_iter().zip(spins) {
                let (live, group) = (live.clone(), group.clone());
                sc.spawn(move || {
                    let _fin = FinishGuard(group.clone());
                    for _ in 0..spin {
                        std::hint::spin_loop();
                    }
                    // the live count is decremented BEFORE the drop: observed <= true count
                    *live.lock().unwrap() -= 1;
                    drop(t);
                    group.note_progress();
                });
            }
            let _fin = FinishGuard(group.clone());
            let r = threads::block_on(&group, fut);
            if r.is_ok() {
                // Ready: every token must be gone (its drop at least begun: count already decremented)
                if *live.lock().unwrap() > 0 {
                    early.store(true, Ordering::SeqCst);
                }
                done.store(true, Ordering::SeqCst);
            }
        });
        c.l.evaluations += 1;
        c.l.count("thread_races");
        if early.load(Ordering::SeqCst) {
            c.violation("threads:shutdown-ready-with-live-tokens", Json::obj().with("tokens", n));
            return;
        }
        if !done.load(Ordering::SeqCst) {
            c.violation("threads:lost-wakeup", Json::obj().with("tokens", n).with("problem", "all tokens dropped, the thread awaiting the shutdown future is parked and was never woken"));
            return;
        }
    }
    c.l.sig(mix(0x1414, c.index));
}

pub fn run(ctx: &Ctx, evidence: Option<&PathBuf>) -> i32 {
    let scale = ctx.scale;
    ctx.run_fixed("hook-directed", ctx.dn(400), hook_windows);
    ctx.run_cases("hook-windows", ctx.size(40_000, 2_000_000), hook_windows);
    ctx.run_fixed("shutdown-directed", ctx.dn(24), |c| shutdown_points(c, scale));
    ctx.run_cases("shutdown-points", ctx.size(500, 10_000), |c| shutdown_points(c, scale));
    let (runs, rounds) = match scale {
        Scale::Full => (ctx.size(16, 400), 150),
        Scale::San => (8, 200),
        Scale::Miri => (1, 3),
    };
    if scale == Scale::Full {
        ctx.run_cases("threads", runs, |c| thread_race(c, rounds));
    } else {
        ctx.run_cases_serial("threads", runs, |c| thread_race(c, rounds));
    }
    ctx.gate("last_drop_at_upgraded", 100);
    ctx.gate("last_drop_at_registered", 100);
    ctx.gate("sequential_orders", 100);
    ctx.gate("runs_with_live_clone_tokens", 100);
    ctx.gate("shutdown_points", 1000);
    ctx.gate("shutdown_while_handler_running", 100);
    ctx.gate("shutdown_while_idle_or_in_preamble", 100);
    ctx.gate("pipelined_bases", 5);
    ctx.gate("thread_races", 100);
    ctx.finish(
        "fault_enumeration",
        "Run A (hook): 0..4 live tokens of a runner (+ optionally tokens of a clone), shutdown(); sequential polls / partial drops with changing wakers, then the remaining tokens are dropped INSIDE WaitGroupFuture::poll at the cfg(fastcgi_server_verif) scheduling points wg_poll:upgraded (between Weak::upgrade and waker registration) and wg_poll:registered (after registration, before the temporary Arc is dropped), or sequentially: \
         Ready never while a token of that runner lives, Pending never without one; after the last drop the poll in progress returns Ready or the waker it registered is woken and the next poll is Ready; clone tokens do not delay the original. \
         Run B: for scripted keep-alive connections (1..3 requests, C07 handler family; one third with a pipelining client and read-to-end handlers) shutdown is requested at (up to 160 evenly spaced of) every executor step 0..N+1 of the clean run: no handler invocation begins in a poll after the request; every started request satisfies the full C07 oracle incl. its epilogue; \
         with no handler running no further transport read is issued; Token::run returns (quiescent-unfinished = not woken); the shutdown future becomes Ready only after Token::run returned and is woken for it. \
         Run C: 1..8 threads drop tokens after random spins while a thread blocks on the shutdown future (quiescence detector = lost wake-up; Ready with an undropped token = early). distinct_nontrivial = distinct hook histories + distinct (connection, shutdown step) executions judged (set).",
        &["uses the add-only cfg(fastcgi_server_verif) scheduling hook", "thread interleavings are whatever the OS / TSan / Miri scheduler produces; the hook-forced windows carry the verdict"],
        false,
        evidence,
    )
}
