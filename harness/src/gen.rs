//! Generators for well-formed FastCGI traffic (preambles, input streams, interleaved records).
//! Everything is derived from the case RNG, so a case is reproducible from (seed, workload, index).

use crate::rng::Rng;
use crate::wire;

pub const INTERNED: [&str; 10] = [
    "CONTENT_LENGTH",
    "REQUEST_METHOD",
    "QUERY_STRING",
    "HTTP_HOST",
    "HTTP_X_FORWARDED_FOR",
    "SCRIPT_FILENAME",
    "HTTPS",
    "GATEWAY_INTERFACE",
    "HTTP_SEC_CH_UA_FULL_VERSION_LIST",
    "SERVER_PROTOCOL",
];

#[derive(Clone, Debug)]
pub struct Pair {
    pub name: Vec<u8>,
    pub value: Vec<u8>,
    pub f4n: bool,
    pub f4v: bool,
}

impl Pair {
    pub fn size(&self) -> usize {
        self.name.len() + self.value.len()
    }
    pub fn encode(&self, out: &mut Vec<u8>) {
        wire::nv_pair(out, &self.name, &self.value, self.f4n, self.f4v);
    }
}

fn mix_case(rng: &mut Rng, s: &str) -> Vec<u8> {
    match rng.below(4) {
        0 => s.as_bytes().to_vec(),
        1 => s.to_ascii_lowercase().into_bytes(),
        _ => s.bytes().map(|b| if rng.chance(1, 2) { b.to_ascii_lowercase() } else { b.to_ascii_uppercase() }).collect(),
    }
}

/// A parameter name of (roughly) the requested length.
pub fn gen_name(rng: &mut Rng, len: usize, earlier: &[Pair]) -> Vec<u8> {
    // duplicates / case variants of earlier names
    if !earlier.is_empty() && rng.chance(1, 6) {
        let e = &rng.pick(earlier).name;
        return if rng.chance(1, 2) { e.clone() } else { e.iter().map(|b| if rng.chance(1, 2) { b.to_ascii_lowercase() } else { b.to_ascii_uppercase() }).collect() };
    }
    if len == 0 {
        return Vec::new();
    }
    let mut v: Vec<u8> = match rng.below(6) {
        0 => {
            let n = *rng.pick(&INTERNED);
            mix_case(rng, n)
        }
        1 | 2 => (0..len).map(|_| *rng.pick(b"ABCDEFGHIJKLMNOPQRSTUVWXYZabcdefghijklmnopqrstuvwxyz0123456789_-")).collect(),
        3 => {
            // valid UTF-8 with multi-byte characters
            let mut s = String::new();
            while s.len() < len {
                s.push(*rng.pick(&['a', 'Z', 'é', 'ß', '\u{212A}', '€', '_', '\u{1F600}']));
            }
            s.into_bytes()
        }
        4 => {
            // invalid UTF-8: lone continuation / 0xFF / truncated multi-byte sequences
            let mut v: Vec<u8> = (0..len).map(|_| *rng.pick(b"abcXYZ_09")).collect();
            for _ in 0..=rng.below(3) {
                let k = rng.below(v.len());
                v[k] = *rng.pick(&[0xffu8, 0x80, 0xc3, 0xe2, 0xf0, 0xbf, 0xc0]);
            }
            v
        }
        _ => rng.bytes(len),
    };
    if rng.chance(3, 4) {
        v.truncate(len);
        while v.len() < len {
            v.push(*rng.pick(b"abcdefXYZ_"));
        }
    }
    // "XI" (any case) is the harness's own marker variable (handler.rs picks its script by it)
    if v.eq_ignore_ascii_case(b"XI") {
        v[0] = b'Y';
    }
    v
}

pub const LEN_CLASSES: [usize; 18] = [0, 0, 1, 1, 2, 3, 8, 17, 60, 126, 127, 128, 129, 255, 256, 300, 1000, 40];

/// Generates 0..max_pairs pairs whose name+value size never exceeds `max_pair`.
pub fn gen_pairs(rng: &mut Rng, max_pairs: usize, max_pair: usize, big: bool) -> Vec<Pair> {
    let n = rng.below(max_pairs + 1);
    let mut v: Vec<Pair> = Vec::new();
    let mut n_big = 0;
    for _ in 0..n {
        let mut pick_len = |rng: &mut Rng| {
            if big && n_big < 1 && rng.chance(1, 25) {
                n_big += 1;
                *rng.pick(&[65528usize, 65535, 65536, 70000])
            } else {
                *rng.pick(&LEN_CLASSES)
            }
        };
        let mut nl = pick_len(rng);
        let mut vl = pick_len(rng);
        if nl > max_pair {
            nl = rng.below(max_pair + 1);
        }
        if nl + vl > max_pair {
            vl = max_pair - nl;
        }
        let name = gen_name(rng, nl, &v);
        let mut name = name;
        if name.len() > max_pair {
            name.truncate(max_pair);
        }
        if name.len() + vl > max_pair {
            vl = max_pair - name.len();
        }
        let value = rng.bytes(vl);
        v.push(Pair { name, value, f4n: rng.chance(1, 5), f4v: rng.chance(1, 5) });
    }
    v
}

pub fn gen_padding(rng: &mut Rng) -> u8 {
    match rng.below(8) {
        0..=2 => 0,
        3 => 1,
        4 => 7,
        5 => 8,
        6 => 255,
        _ => rng.u8(),
    }
}

/// Kinds of records that may be interleaved with a request's own records.
#[derive(Clone, Copy, Debug, PartialEq, Eq)]
pub enum Extra {
    GetValues,
    GetValuesEmpty,
    UnknownType,
    ForeignStream,
    ForeignAbort,
    ForeignParams,
    StaleParams,
    DupBegin,
    ForeignBegin,
    ForeignBeginUnknownRole,
    OddKnown,
    GetValuesNonNull,
    OutOfRoleStream,
    /// a record of an earlier stream of the role (own id) while a later one is active
    EarlierStream,
    /// a skipped record whose content + padding exceeds 65535 bytes
    BigSkipped,
}

pub const EXTRAS_PREAMBLE: [Extra; 10] = [
    Extra::GetValues,
    Extra::GetValuesEmpty,
    Extra::UnknownType,
    Extra::ForeignStream,
    Extra::ForeignAbort,
    Extra::ForeignParams,
    Extra::DupBegin,
    Extra::ForeignBegin,
    Extra::OddKnown,
    Extra::GetValuesNonNull,
];

/// Extras dominated by skipped records whose content + padding exceeds 65535 bytes.
pub const EXTRAS_BIG: [Extra; 4] = [Extra::BigSkipped, Extra::BigSkipped, Extra::GetValues, Extra::UnknownType];

/// Preamble extras without any BeginRequest (for workloads that abort requests mid-preamble: a
/// stray BeginRequest behind the abort would legitimately start a new request).
pub const EXTRAS_PREAMBLE_NO_BEGIN: [Extra; 8] = [
    Extra::GetValues,
    Extra::GetValuesEmpty,
    Extra::UnknownType,
    Extra::ForeignStream,
    Extra::ForeignAbort,
    Extra::ForeignParams,
    Extra::OddKnown,
    Extra::GetValuesNonNull,
];

/// Reply-eliciting and stray records for the C04 workloads (adds unknown-role BeginRequests).
pub const EXTRAS_PRE_REPLIES: [Extra; 11] = [
    Extra::GetValuesNonNull,
    Extra::BigSkipped,
    Extra::GetValues,
    Extra::GetValues,
    Extra::GetValuesEmpty,
    Extra::UnknownType,
    Extra::UnknownType,
    Extra::ForeignBegin,
    Extra::ForeignBeginUnknownRole,
    Extra::ForeignAbort,
    Extra::OddKnown,
];
pub const EXTRAS_STREAM_REPLIES: [Extra; 11] = [
    Extra::ForeignBeginUnknownRole,
    Extra::GetValues,
    Extra::GetValues,
    Extra::GetValuesEmpty,
    Extra::UnknownType,
    Extra::UnknownType,
    Extra::ForeignBegin,
    Extra::ForeignBegin,
    Extra::StaleParams,
    Extra::ForeignStream,
    Extra::GetValuesNonNull,
];

pub const EXTRAS_STREAM: [Extra; 12] = [
    Extra::GetValues,
    Extra::GetValuesEmpty,
    Extra::UnknownType,
    Extra::ForeignStream,
    Extra::ForeignAbort,
    Extra::StaleParams,
    Extra::DupBegin,
    Extra::ForeignBegin,
    Extra::OddKnown,
    Extra::GetValuesNonNull,
    Extra::OutOfRoleStream,
    Extra::ForeignParams,
];

pub fn foreign_id(rng: &mut Rng, own: u16) -> u16 {
    loop {
        let id = match rng.below(4) {
            0 => 0,
            1 => own.wrapping_add(1),
            2 => own ^ 0x0100,
            _ => rng.u16(),
        };
        if id != own {
            return id;
        }
    }
}

/// Body for a GetValues query whose individual pairs stay within `max_pair` bytes.
/// Unknown variable names that a sloppy matcher could take for a known one: wrong case, padded with
/// white space, prefixes / extensions, several known names joined by separators, numeric forms.
pub fn near_miss_var_name(rng: &mut Rng) -> Vec<u8> {
    let k = *rng.pick(&wire::KNOWN_VARS);
    let k2 = *rng.pick(&wire::KNOWN_VARS);
    let s = match rng.below(16) {
        0 => "FCGI_UNKNOWN_VAR".to_string(),
        1 => k.to_ascii_lowercase(),
        2 => format!("{k} "),
        3 => format!(" {k}"),
        4 => format!("{k}|{k2}"),
        5 => format!("{k} | {k2}"),
        6 => format!("{k},{k2}"),
        7 => k[..k.len() - 1].to_string(),
        8 => format!("{k}S"),
        9 => format!("{k}\0"),
        10 => ["0x07", "0x1", "7", "1", "0"][rng.below(5)].to_string(),
        11 => k.replace('_', "-"),
        12 => k.trim_start_matches("FCGI_").to_string(),
        13 => format!("\t{k}\n"),
        14 => {
            let mut c: Vec<char> = k.chars().collect();
            let i = rng.below(c.len());
            c[i] = c[i].to_ascii_lowercase();
            c.into_iter().collect()
        }
        _ => "FCGI_".to_string(),
    };
    s.into_bytes()
}

pub fn gen_getvalues_body(rng: &mut Rng, max_pair: usize) -> Vec<u8> {
    let mut body = Vec::new();
    let n = 1 + rng.below(5);
    for _ in 0..n {
        let (name, value): (Vec<u8>, Vec<u8>) = match rng.below(10) {
            0..=4 => (rng.pick(&wire::KNOWN_VARS).as_bytes().to_vec(), Vec::new()),
            5 => (rng.pick(&wire::KNOWN_VARS).as_bytes().to_vec(), rng.rbytes(5)), // value-carrying
            6 => (near_miss_var_name(rng), Vec::new()),
            7 => (vec![0xff, b'F', 0xc3], Vec::new()), // non-UTF-8 name
            8 => (Vec::new(), Vec::new()),
            _ => {
                let l = rng.below(max_pair.min(40) + 1);
                (rng.bytes(l), Vec::new())
            }
        };
        if name.len() + value.len() > max_pair {
            continue;
        }
        let f4 = rng.chance(1, 6);
        wire::nv_pair(&mut body, &name, &value, f4, rng.chance(1, 6));
    }
    if rng.chance(1, 6) {
        // incomplete trailing pair: announces more than is there
        let name = rng.pick(&wire::KNOWN_VARS).as_bytes();
        let mut t = Vec::new();
        wire::nv_pair(&mut t, name, b"", false, false);
        let cut = 1 + rng.below(t.len() - 1);
        body.extend_from_slice(&t[..cut]);
    }
    if body.is_empty() {
        wire::nv_pair(&mut body, b"FCGI_MAX_CONNS", b"", false, false);
    }
    body
}

/// Appends one interleaved record of the given kind. `own` is the active request id (0 if none),
/// `role` its role.
pub fn push_extra(rng: &mut Rng, out: &mut Vec<u8>, kind: Extra, own: u16, role: u16, max_pair: usize) {
    let pad = gen_padding(rng);
    match kind {
        Extra::GetValues => {
            let body = gen_getvalues_body(rng, max_pair);
            wire::record(out, wire::GETVALUES, 0, &body, pad);
        }
        Extra::GetValuesEmpty => wire::record(out, wire::GETVALUES, 0, &[], pad),
        Extra::GetValuesNonNull => {
            let body = gen_getvalues_body(rng, max_pair);
            wire::record(out, wire::GETVALUES, foreign_id(rng, 0), &body, pad);
        }
        Extra::UnknownType => {
            let t = loop {
                let t = rng.u8();
                if !wire::known_type(t) {
                    break t;
                }
            };
            let id = if rng.chance(1, 2) { 0 } else { rng.u16() };
            let cap = if rng.chance(1, 8) { 600 } else { 24 };
            let body = rng.rbytes(cap);
            wire::record(out, t, id, &body, pad);
        }
        Extra::ForeignStream => {
            let t = *rng.pick(&[wire::STDIN, wire::DATA]);
            let body = rng.rbytes(40);
            wire::record(out, t, foreign_id(rng, own), &body, pad);
        }
        Extra::ForeignAbort => {
            let body = rng.rbytes(12);
            wire::record(out, wire::ABORT, foreign_id(rng, own), &body, pad);
        }
        Extra::ForeignParams => {
            let body = rng.rbytes(30);
            wire::record(out, wire::PARAMS, foreign_id(rng, own), &body, pad);
        }
        Extra::StaleParams => {
            let body = rng.rbytes(30);
            wire::record(out, wire::PARAMS, own, &body, pad);
        }
        Extra::DupBegin => {
            wire::record(out, wire::BEGIN, own, &wire::begin_body(role, rng.u8()), pad);
        }
        Extra::ForeignBegin => {
            let id = loop {
                let id = foreign_id(rng, own);
                if own != 0 || id != 0 {
                    break id;
                }
            };
            wire::record(out, wire::BEGIN, id, &wire::begin_body(1 + rng.below(3) as u16, rng.u8()), pad);
        }
        Extra::ForeignBeginUnknownRole => {
            // (with no request active, id 0 is included: the role is judged before the id)
            let id = if own == 0 && rng.chance(1, 3) { 0 } else { foreign_id(rng, own).max(1) };
            let id = if own != 0 && id == own { own.wrapping_add(1).max(1) } else { id };
            wire::record(out, wire::BEGIN, id, &wire::begin_body(*rng.pick(&[0u16, 4, 255, 65535]), rng.u8()), pad);
        }
        Extra::OddKnown => {
            // known types a server never expects from a client
            let t = *rng.pick(&[wire::END, wire::STDOUT, wire::STDERR, wire::GETVALUESRESULT, wire::UNKNOWN]);
            let id = if rng.chance(1, 2) { own } else { rng.u16() };
            let body = rng.rbytes(20);
            wire::record(out, t, id, &body, pad);
        }
        Extra::BigSkipped if !rng.chance(1, 3) => {
            // (kept rare: most draws fall back to a small stray record)
            let body = rng.rbytes(20);
            wire::record(out, wire::STDOUT, rng.u16(), &body, pad);
        }
        Extra::BigSkipped => {
            let t = *rng.pick(&[wire::STDOUT, wire::END, 0x77u8, 200, wire::PARAMS]);
            let id = if t == wire::PARAMS { foreign_id(rng, own).max(1) } else { rng.u16() };
            let id = if id == own { own.wrapping_add(1).max(1) } else { id };
            let body = vec![0x5a; 65535 - rng.below(3)];
            wire::record(out, t, id, &body, *rng.pick(&[1u8, 3, 8, 255]));
        }
        Extra::EarlierStream => {
            let body = rng.rbytes(30);
            // also the empty form: a second "terminator" of the earlier stream
            let body = if rng.chance(1, 4) { Vec::new() } else { body };
            wire::record(out, wire::STDIN, own, &body, pad);
        }
        Extra::OutOfRoleStream => {
            // DATA for a responder / any input stream for an authorizer
            let t = if role == wire::RESPONDER { wire::DATA } else if role == wire::AUTHORIZER { *rng.pick(&[wire::STDIN, wire::DATA]) } else { wire::PARAMS };
            let body = rng.rbytes(30);
            wire::record(out, t, own, &body, pad);
        }
    }
}

pub fn gen_request_id(rng: &mut Rng) -> u16 {
    match rng.below(6) {
        0 => 1,
        1 => 255,
        2 => 256,
        3 => 65535,
        _ => 1 + rng.below(65535) as u16,
    }
}

/// How a Params payload is cut into records.
#[derive(Clone, Debug)]
pub enum Cuts {
    None,
    At(Vec<usize>),
    EveryByte,
}

pub fn gen_cuts(rng: &mut Rng, payload: &[u8], pairs: &[Pair]) -> Cuts {
    if payload.len() < 2 {
        return Cuts::None;
    }
    match rng.below(6) {
        0 => Cuts::None,
        1 if payload.len() <= 600 => Cuts::EveryByte,
        2 => {
            // aimed at pair structure: inside length prefixes, one byte around pair boundaries
            let mut offs = Vec::new();
            let mut off = 0usize;
            for p in pairs {
                let mut e = Vec::new();
                p.encode(&mut e);
                let hl = e.len() - p.size();
                for d in [1usize, 2, 3, hl.saturating_sub(1), hl, hl + 1, hl + p.name.len(), e.len().saturating_sub(1)] {
                    if d > 0 && d < e.len() && rng.chance(1, 2) {
                        offs.push(off + d);
                    }
                }
                if rng.chance(1, 2) && off > 0 {
                    offs.push(off);
                }
                off += e.len();
            }
            offs.sort_unstable();
            offs.dedup();
            offs.retain(|&o| o > 0 && o < payload.len());
            if offs.is_empty() {
                Cuts::None
            } else {
                Cuts::At(offs)
            }
        }
        _ => {
            let n = 1 + rng.below(8);
            let mut offs: Vec<usize> = (0..n).map(|_| 1 + rng.below(payload.len() - 1)).collect();
            offs.sort_unstable();
            offs.dedup();
            Cuts::At(offs)
        }
    }
}

/// Splits `payload` per `cuts`, additionally respecting the 65535-byte record limit.
pub fn segments(payload: &[u8], cuts: &Cuts) -> Vec<std::ops::Range<usize>> {
    let mut points: Vec<usize> = match cuts {
        Cuts::None => vec![],
        Cuts::At(v) => v.clone(),
        Cuts::EveryByte => (1..payload.len()).collect(),
    };
    points.push(payload.len());
    let mut out = Vec::new();
    let mut start = 0;
    for p in points {
        let mut s = start;
        while p - s > 65535 {
            out.push(s..s + 65535);
            s += 65535;
        }
        if p > s {
            out.push(s..p);
        }
        start = p;
    }
    out
}

#[derive(Clone, Debug)]
pub struct Preamble {
    pub id: u16,
    pub role: u16,
    pub flags: u8,
    pub pairs: Vec<Pair>,
    pub n_param_records: usize,
    pub n_extras: usize,
    pub cut_desc: String,
}

/// Appends a complete, well-formed request preamble to `out`.
/// `extra_pct`: percent chance of an interleaved record at each slot; `max_pair`: size bound for
/// GetValues pairs (buffer - 13).
#[allow(clippy::too_many_arguments)]
pub fn push_preamble(
    rng: &mut Rng,
    out: &mut Vec<u8>,
    id: u16,
    role: u16,
    flags: u8,
    pairs: &[Pair],
    cuts: &Cuts,
    extra_pct: usize,
    extras: &[Extra],
    max_pair: usize,
) -> Preamble {
    let mut n_extras = 0;
    let mut slot = |rng: &mut Rng, out: &mut Vec<u8>, own: u16, n_extras: &mut usize| {
        while rng.below(100) < extra_pct {
            let mut k = *rng.pick(extras);
            if own == 0 && matches!(k, Extra::DupBegin | Extra::StaleParams | Extra::OutOfRoleStream | Extra::ForeignBegin) {
                // before BeginRequest there is no active request: a BeginRequest would start one
                k = Extra::GetValues;
            }
            push_extra(rng, out, k, own, role, max_pair);
            *n_extras += 1;
        }
    };
    slot(rng, out, 0, &mut n_extras);
    wire::begin_request(out, id, role, flags, gen_padding(rng));
    let mut payload = Vec::new();
    for p in pairs {
        p.encode(&mut payload);
    }
    let segs = segments(&payload, cuts);
    for s in &segs {
        slot(rng, out, id, &mut n_extras);
        wire::record(out, wire::PARAMS, id, &payload[s.clone()], gen_padding(rng));
    }
    slot(rng, out, id, &mut n_extras);
    wire::record(out, wire::PARAMS, id, &[], gen_padding(rng));
    Preamble {
        id,
        role,
        flags,
        pairs: pairs.to_vec(),
        n_param_records: segs.len(),
        n_extras,
        cut_desc: match cuts {
            Cuts::None => "none".into(),
            Cuts::EveryByte => "every-byte".into(),
            Cuts::At(v) => format!("{} cuts", v.len()),
        },
    }
}

/// Payload bytes that identify their origin: high bits = tag, low 6 bits = offset mod 64.
pub fn tagged(tag: u8, offset: usize, len: usize) -> Vec<u8> {
    (0..len).map(|i| (tag << 6) | ((offset + i) % 64) as u8).collect()
}

pub const STREAM_REC_LENS: [usize; 14] = [1, 1, 2, 7, 8, 9, 16, 100, 255, 256, 1000, 4096, 65535, 30];

/// Appends the records of one input stream (content tagged with `tag`), with interleaved extras.
/// Returns the content written. `terminate`: append the empty terminating record.
#[allow(clippy::too_many_arguments)]
pub fn push_stream(
    rng: &mut Rng,
    out: &mut Vec<u8>,
    rtype: u8,
    id: u16,
    role: u16,
    tag: u8,
    max_records: usize,
    big: bool,
    extra_pct: usize,
    extras: &[Extra],
    max_pair: usize,
    terminate: bool,
) -> Vec<u8> {
    let n = rng.below(max_records + 1);
    let mut content = Vec::new();
    for _ in 0..n {
        while rng.below(100) < extra_pct {
            {
            let k = *rng.pick(extras);
            push_extra(rng, out, k, id, role, max_pair);
        }
        }
        let mut l = *rng.pick(&STREAM_REC_LENS);
        if !big && l > 1000 {
            l = 1 + rng.below(300);
        }
        let body = tagged(tag, content.len(), l);
        wire::record(out, rtype, id, &body, gen_padding(rng));
        content.extend_from_slice(&body);
    }
    while rng.below(100) < extra_pct {
        {
            let k = *rng.pick(extras);
            push_extra(rng, out, k, id, role, max_pair);
        }
    }
    if terminate {
        wire::record(out, rtype, id, &[], gen_padding(rng));
    }
    content
}

// ------------------------------------------------------------------------------------------
// whole requests

#[derive(Clone, Debug)]
pub struct ReqSpec {
    pub id: u16,
    pub role: u16,
    pub flags: u8,
    pub max_pairs: usize,
    /// bound for name+value of every Params / GetValues pair (buffer_size - 13)
    pub max_pair: usize,
    pub big_pairs: bool,
    pub max_stream_records: usize,
    pub big_records: bool,
    pub extra_pct_pre: usize,
    pub extra_pct_stream: usize,
    /// tag offset so that different requests on one connection carry distinguishable bytes
    pub tag_base: u8,
    pub extras_pre: &'static [Extra],
    pub extras_stream: &'static [Extra],
    /// adds the variable `XI=<marker>` so that a handler can tell which request it is serving
    pub marker: Option<u8>,
}

#[derive(Clone, Debug)]
pub struct BuiltReq {
    pub start: usize,
    pub end: usize,
    pub preamble: Preamble,
    /// (stream type, content) in role order
    pub streams: Vec<(u8, Vec<u8>)>,
}

pub fn push_request(rng: &mut Rng, out: &mut Vec<u8>, s: &ReqSpec) -> BuiltReq {
    let start = out.len();
    let mut pairs = gen_pairs(rng, s.max_pairs, s.max_pair, s.big_pairs);
    if let Some(m) = s.marker {
        pairs.retain(|p| !p.name.eq_ignore_ascii_case(b"XI"));
        let at = rng.below(pairs.len() + 1);
        pairs.insert(at, Pair { name: b"XI".to_vec(), value: vec![b'0' + m], f4n: false, f4v: false });
    }
    let mut payload = Vec::new();
    for p in &pairs {
        p.encode(&mut payload);
    }
    let cuts = gen_cuts(rng, &payload, &pairs);
    let preamble = push_preamble(rng, out, s.id, s.role, s.flags, &pairs, &cuts, s.extra_pct_pre, s.extras_pre, s.max_pair);
    let mut streams = Vec::new();
    for (i, &t) in wire::role_input_streams(s.role).iter().enumerate() {
        let tag = (s.tag_base + i as u8) & 3;
        let n_streams = wire::role_input_streams(s.role).len();
        // a non-final stream may be ended by the first record of the next stream instead of its own terminator
        let terminate = !(i + 1 < n_streams && rng.chance(1, 3));
        let mut ex: Vec<Extra> = s.extras_stream.to_vec();
        if i > 0 {
            ex.push(Extra::EarlierStream);
            ex.push(Extra::EarlierStream);
        }
        let content = push_stream(rng, out, t, s.id, s.role, tag, s.max_stream_records, s.big_records, s.extra_pct_stream, &ex, s.max_pair, terminate);
        streams.push((t, content));
    }
    // trailing management / stray records after the last terminator
    while rng.below(100) < s.extra_pct_stream {
        let k = *rng.pick(s.extras_stream);
        push_extra(rng, out, k, s.id, s.role, s.max_pair);
    }
    BuiltReq { start, end: out.len(), preamble, streams }
}

pub fn gen_role(rng: &mut Rng) -> u16 {
    *rng.pick(&[wire::RESPONDER, wire::RESPONDER, wire::FILTER, wire::FILTER, wire::AUTHORIZER])
}
