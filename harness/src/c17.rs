//! C17 — record headers, fixed bodies and generated replies encode exactly as specified.

use std::num::NonZeroUsize;
use std::path::PathBuf;

use fastcgi_server::protocol::body::{BeginRequest, EndRequest, UnknownType};
use fastcgi_server::protocol::{
    Error as PErr, ProtocolStatus, ProtocolVariables, RecordHeader, RecordType, RequestFlags, Role, Version,
};
use fastcgi_server::{Config, ExitStatus};
use smallvec::SmallVec;

use crate::ev::{guarded, panic_signature, Case, Ctx, Scale};
use crate::json::{hex, Json};
use crate::rng::Rng;
use crate::wire;

fn viol(c: &mut Case, sig: &str, what: String, bytes: &[u8]) {
    c.violation(sig, Json::obj().with("what", what).with("bytes", hex(bytes)));
}

fn model_header(version: u8, t: u8, id: u16, len: u16, pad: u8, reserved: u8) -> [u8; 8] {
    let i = id.to_be_bytes();
    let l = len.to_be_bytes();
    [version, t, i[0], i[1], l[0], l[1], pad, reserved]
}

/// decode∘encode / encode∘decode / rejection rule for one 8-byte string.
fn check_header_bytes(c: &mut Case, b: [u8; 8]) -> bool {
    let (version, t) = (b[0], b[1]);
    let id = u16::from_be_bytes([b[2], b[3]]);
    let len = u16::from_be_bytes([b[4], b[5]]);
    let pad = b[6];
    let r = match guarded(|| RecordHeader::from_bytes(b)) {
        Ok(r) => r,
        Err(p) => {
            viol(c, &panic_signature(&p), format!("from_bytes panicked: {p}"), &b);
            return false;
        }
    };
    c.l.evaluations += 1;
    if version != 1 {
        // unknown version is reported first, whatever the type byte says
        if !matches!(r, Err(PErr::UnknownVersion(v)) if v == version) {
            viol(c, "header-version-rejection", format!("version {version} type {t}: got {r:?}"), &b);
            return false;
        }
        return true;
    }
    if !wire::known_type(t) {
        if !matches!(r, Err(PErr::UnknownRecordType(x)) if x == t) {
            viol(c, "header-type-rejection", format!("type {t}: got {r:?}"), &b);
            return false;
        }
        return true;
    }
    let Ok(h) = r else {
        viol(c, "header-rejects-valid", format!("valid header rejected: {r:?}"), &b);
        return false;
    };
    if u8::from(h.version) != 1 || u8::from(h.rtype) != t || h.request_id != id || h.content_length != len || h.padding_length != pad {
        viol(c, "header-decode-fields", format!("decoded {h:?}"), &b);
        return false;
    }
    let back = h.to_bytes();
    let want = model_header(1, t, id, len, pad, 0);
    if back != want {
        viol(c, "header-reencode", format!("re-encoded {} expected {}", hex(&back), hex(&want)), &b);
        return false;
    }
    match RecordHeader::from_bytes(back) {
        Ok(h2) if h2 == h => {}
        other => {
            viol(c, "header-roundtrip", format!("decode(encode(h)) = {other:?}"), &b);
            return false;
        }
    }
    let mgmt = matches!(t, 9 | 10 | 11) && id == 0;
    if h.is_management() != mgmt {
        viol(c, "is-management", format!("is_management() = {} for type {t} id {id}", h.is_management()), &b);
        return false;
    }
    if h.padding_bytes().len() != usize::from(pad) {
        viol(c, "padding-bytes-len", format!("padding_bytes().len() = {}", h.padding_bytes().len()), &b);
        return false;
    }
    true
}

fn sampled_fields(rng: &mut Rng, n: usize) -> Vec<(u16, u16, u8, u8)> {
    let mut v = vec![
        (0u16, 0u16, 0u8, 0u8),
        (1, 8, 0, 0),
        (0xffff, 0xffff, 0xff, 0xff),
        (0x0100, 0x00ff, 7, 1),
        (0x00ff, 0x0100, 8, 0x80),
        (0x8000, 0x7fff, 1, 0),
    ];
    while v.len() < n {
        v.push((rng.u16(), rng.u16(), rng.u8(), rng.u8()));
    }
    v
}

trait Target: std::ops::Deref<Target = [u8]> {
    fn make(prefix: &[u8]) -> Self;
    fn respond(&mut self, vars: ProtocolVariables, cfg: &Config) -> usize;
    const NAME: &'static str;
}
impl Target for Vec<u8> {
    fn make(prefix: &[u8]) -> Self {
        prefix.to_vec()
    }
    fn respond(&mut self, vars: ProtocolVariables, cfg: &Config) -> usize {
        vars.write_response(self, cfg)
    }
    const NAME: &'static str = "Vec<u8>";
}
impl Target for SmallVec<[u8; 104]> {
    fn make(prefix: &[u8]) -> Self {
        SmallVec::from_slice(prefix)
    }
    fn respond(&mut self, vars: ProtocolVariables, cfg: &Config) -> usize {
        vars.write_response(self, cfg)
    }
    const NAME: &'static str = "SmallVec<[u8;104]>";
}
impl Target for SmallVec<[u8; 8]> {
    fn make(prefix: &[u8]) -> Self {
        SmallVec::from_slice(prefix)
    }
    fn respond(&mut self, vars: ProtocolVariables, cfg: &Config) -> usize {
        vars.write_response(self, cfg)
    }
    const NAME: &'static str = "SmallVec<[u8;8]>";
}

fn check_response<T: Target>(c: &mut Case, bits: u8, limit: usize, prefix: &[u8]) -> bool {
    let mut cfg = Config::with_conns(NonZeroUsize::new(limit).expect("limit > 0"));
    cfg.buffer_size = 64;
    let vars = ProtocolVariables::from_bits_truncate(bits);
    let mut out = T::make(prefix);
    let r = guarded(|| out.respond(vars, &cfg));
    c.l.evaluations += 1;
    let ctxt = |m: String| format!("{m} [target {} subset {bits:#05b} limit {limit} prefix {}B]", T::NAME, prefix.len());
    let n = match r {
        Ok(n) => n,
        Err(p) => {
            viol(c, &panic_signature(&p), ctxt(format!("write_response panicked: {p}")), prefix);
            return false;
        }
    };
    if out.len() < prefix.len() || out[..prefix.len()] != *prefix {
        viol(c, "response-clobbers-prefix", ctxt("existing buffer contents modified".into()), &out);
        return false;
    }
    let rec = &out[prefix.len()..];
    if n != rec.len() {
        viol(c, "response-count", ctxt(format!("returned {n}, appended {}", rec.len())), rec);
        return false;
    }
    if n > ProtocolVariables::RESPONSE_LEN || ProtocolVariables::RESPONSE_LEN != 104 {
        viol(c, "response-too-long", ctxt(format!("{n} bytes > RESPONSE_LEN {}", ProtocolVariables::RESPONSE_LEN)), rec);
        return false;
    }
    let (recs, tail) = wire::scan(rec);
    if recs.len() != 1 || tail != rec.len() {
        viol(c, "response-not-one-record", ctxt(format!("{} complete records, {} trailing bytes", recs.len(), rec.len() - tail)), rec);
        return false;
    }
    let r0 = &recs[0];
    if r0.version != 1 || r0.rtype != wire::GETVALUESRESULT || r0.id != 0 || rec[7] != 0 {
        viol(c, "response-header", ctxt(format!("header {:?}", &rec[..8])), rec);
        return false;
    }
    if r0.padding >= 8 || (r0.len() + usize::from(r0.padding)) % 8 != 0 {
        viol(c, "response-padding", ctxt(format!("content {} padding {}", r0.len(), r0.padding)), rec);
        return false;
    }
    let (pairs, rest) = wire::decode_nv(r0.body(rec));
    if rest != r0.len() {
        viol(c, "response-body", ctxt("body does not decode completely".into()), rec);
        return false;
    }
    let mut want: Vec<(&str, String)> = Vec::new();
    for (i, name) in wire::KNOWN_VARS.iter().enumerate() {
        if bits & (1 << i) != 0 {
            want.push((name, if i == 2 { "0".to_string() } else { limit.to_string() }));
        }
    }
    let mut got: Vec<(String, String)> =
        pairs.iter().map(|(n, v)| (String::from_utf8_lossy(n).into_owned(), String::from_utf8_lossy(v).into_owned())).collect();
    got.sort();
    let mut wants: Vec<(String, String)> = want.iter().map(|(a, b)| ((*a).to_string(), b.clone())).collect();
    wants.sort();
    if got != wants {
        viol(c, "response-variables", ctxt(format!("listed {got:?}, expected {wants:?}")), rec);
        return false;
    }
    true
}

pub fn run(ctx: &Ctx, evidence: Option<&PathBuf>) -> i32 {
    let small = ctx.scale != Scale::Full;

    // ---- headers: all 2^16 (version,type) pairs x sampled other fields ----------------------
    let n_samples = if small { 6 } else { 64 };
    ctx.run_fixed("header-version-type", 256, |c| {
        let version = c.index as u8;
        if c.ctx.miri() && !matches!(version, 0 | 1 | 2 | 255) {
            return;
        }
        let fields = sampled_fields(&mut c.rng, n_samples);
        for t in (0..=255u8).step_by(if c.ctx.miri() { 5 } else { 1 }) {
            for &(id, len, pad, res) in &fields {
                if !check_header_bytes(c, model_header(version, t, id, len, pad, res)) {
                    return;
                }
            }
            if version == 1 || t == 1 {
                c.l.sig(u64::from(version) << 8 | u64::from(t));
            }
        }
        c.l.add("version_type_pairs", 256);
    });
    // ---- each remaining field exhaustively, the others sampled --------------------------------
    ctx.run_fixed("header-fields", 11, |c| {
        let t = (c.index + 1) as u8;
        let fields = sampled_fields(&mut c.rng, if small { 3 } else { 12 });
        let step = if ctx.scale == Scale::Miri { 257 } else { 1 };
        for &(id0, len0, pad0, res0) in &fields {
            for x in (0..=u16::MAX).step_by(step) {
                if !check_header_bytes(c, model_header(1, t, x, len0, pad0, res0)) || !check_header_bytes(c, model_header(1, t, id0, x, pad0, res0)) {
                    return;
                }
            }
            for p in 0..=255u8 {
                if !check_header_bytes(c, model_header(1, t, id0, len0, p, res0)) || !check_header_bytes(c, model_header(1, t, id0, len0, pad0, p)) {
                    return;
                }
            }
        }
        c.l.count("types_with_full_field_sweep");
        // constructor + struct-literal encode
        let Ok(rt) = RecordType::try_from(t) else {
            viol(c, "recordtype-try-from", format!("RecordType::try_from({t}) failed"), &[t]);
            return;
        };
        if u8::from(rt) != t {
            viol(c, "recordtype-into", format!("u8::from(RecordType {rt:?}) = {}", u8::from(rt)), &[t]);
        }
        let h = RecordHeader::new(rt, 0x1234);
        if h.to_bytes() != model_header(1, t, 0x1234, 0, 0, 0) || h.version != Version::V1 {
            viol(c, "header-new", format!("RecordHeader::new -> {h:?}"), &h.to_bytes());
        }
        let mgmt_model = matches!(t, 9 | 10 | 11);
        if rt.is_management() != mgmt_model || rt.is_input_stream() != matches!(t, 5 | 8) || rt.is_output_stream() != matches!(t, 6 | 7) {
            viol(c, "recordtype-classes", format!("classification of type {t} wrong"), &[t]);
        }
        c.l.sample(Json::obj().with("header_sweep_for_type", wire::type_name(t)).with("example", hex(&model_header(1, t, 0x1234, 0, 0, 0))));
    });
    // ---- enum conversions: every byte / u16 -----------------------------------------------------
    ctx.run_fixed("enum-conversions", 1, |c| {
        for v in 0..=255u8 {
            c.l.evaluations += 3;
            let ok = match Version::try_from(v) {
                Ok(x) => v == 1 && u8::from(x) == 1,
                Err(PErr::UnknownVersion(e)) => v != 1 && e == v,
                Err(_) => false,
            };
            if !ok {
                viol(c, "version-conversion", format!("Version::try_from({v})"), &[v]);
            }
            let ok = match RecordType::try_from(v) {
                Ok(x) => wire::known_type(v) && u8::from(x) == v,
                Err(PErr::UnknownRecordType(e)) => !wire::known_type(v) && e == v,
                Err(_) => false,
            };
            if !ok {
                viol(c, "recordtype-conversion", format!("RecordType::try_from({v})"), &[v]);
            }
            let ok = match ProtocolStatus::try_from(v) {
                Ok(x) => v <= 3 && u8::from(x) == v,
                Err(PErr::UnknownStatus(e)) => v > 3 && e == v,
                Err(_) => false,
            };
            if !ok {
                viol(c, "status-conversion", format!("ProtocolStatus::try_from({v})"), &[v]);
            }
            let f = RequestFlags::from(v);
            if u8::from(f) != v || f.bits() != v || f.contains(RequestFlags::KeepConn) != (v & 1 == 1) {
                viol(c, "flags-conversion", format!("RequestFlags::from({v}) = {f:?}"), &[v]);
            }
            let val = f.validate();
            let okv = if v & !1 == 0 { val.is_ok() } else { matches!(val, Err(PErr::UnknownFlags(u)) if u == v & !1) };
            if !okv {
                viol(c, "flags-validate", format!("validate({v:#x}) = {val:?}"), &[v]);
            }
        }
        for r in (0..=u16::MAX).step_by(if c.ctx.miri() { 7 } else { 1 }) {
            c.l.evaluations += 1;
            let ok = match Role::try_from(r) {
                Ok(x) => (1..=3).contains(&r) && u16::from(x) == r,
                Err(PErr::UnknownRole(e)) => !(1..=3).contains(&r) && e == r,
                Err(_) => false,
            };
            if !ok {
                viol(c, "role-conversion", format!("Role::try_from({r})"), &r.to_be_bytes());
            }
        }
        // role stream tables against the specification
        let spec: [(u16, &[u8]); 3] = [(1, &[5]), (2, &[]), (3, &[5, 8])];
        for (r, ins) in spec {
            let role = Role::try_from(r).expect("known role");
            let got: Vec<u8> = role.input_streams().iter().map(|&t| u8::from(t)).collect();
            let mut outs: Vec<u8> = role.output_streams().iter().map(|&t| u8::from(t)).collect();
            outs.sort_unstable();
            if got != ins || outs != [6, 7] {
                viol(c, "role-streams", format!("role {r}: input {got:?} output {outs:?}"), &[]);
            }
        }
        c.l.count("enum_conversion_sweeps");
    });
    // ---- padding rule for all 65536 content lengths ---------------------------------------------
    ctx.run_fixed("set-lengths", 1, |c| {
        for len in (0..=u16::MAX).step_by(if c.ctx.miri() { 13 } else { 1 }) {
            let mut h = RecordHeader::new(RecordType::Stdout, 7);
            h.padding_length = 0x55;
            h.set_lengths(len);
            c.l.evaluations += 1;
            let pad = h.padding_length;
            if h.content_length != len || pad >= 8 || (u32::from(len) + u32::from(pad)) % 8 != 0 {
                viol(c, "set-lengths", format!("set_lengths({len}) -> content {} padding {pad}", h.content_length), &h.to_bytes());
                return;
            }
            if h.padding_bytes().len() != usize::from(pad) {
                viol(c, "padding-bytes-len", format!("padding_bytes().len() = {} for padding {pad}", h.padding_bytes().len()), &h.to_bytes());
                return;
            }
        }
        c.l.add("content_lengths_checked", 65536);
        c.l.sig(0x5e71);
    });
    // ---- BeginRequest: all 2^16 roles x 256 flag bytes --------------------------------------------
    ctx.run_fixed("begin-request", 256, |c| {
        let flags = c.index as u8;
        if c.ctx.miri() && !matches!(flags, 0 | 1 | 254 | 255) {
            return;
        }
        let step = if ctx.scale == Scale::Miri { 4099 } else { 1 };
        for role in (0..=u16::MAX).step_by(step) {
            let res = [c.rng.u8(), c.rng.u8(), 0, 0xff, c.rng.u8()];
            let rb = role.to_be_bytes();
            let b = [rb[0], rb[1], flags, res[0], res[1], res[2], res[3], res[4]];
            let r = BeginRequest::from_bytes(b);
            c.l.evaluations += 1;
            if (1..=3).contains(&role) {
                let Ok(br) = r else {
                    viol(c, "begin-rejects-valid", format!("role {role}: {r:?}"), &b);
                    return;
                };
                if u16::from(br.role) != role || br.flags.bits() != flags {
                    viol(c, "begin-decode", format!("decoded {br:?}"), &b);
                    return;
                }
                let want = wire::begin_body(role, flags);
                if br.to_bytes() != want {
                    viol(c, "begin-reencode", format!("re-encoded {}", hex(&br.to_bytes())), &b);
                    return;
                }
                if !matches!(BeginRequest::from_bytes(br.to_bytes()), Ok(x) if x == br) {
                    viol(c, "begin-roundtrip", "decode(encode(b)) != b".into(), &b);
                    return;
                }
                let id = c.rng.u16();
                let mut model = Vec::new();
                wire::record(&mut model, wire::BEGIN, id, &want, 0);
                if br.to_record(id)[..] != model[..] {
                    viol(c, "begin-to-record", format!("to_record({id}) = {}", hex(&br.to_record(id))), &model);
                    return;
                }
            } else if !matches!(r, Err(PErr::UnknownRole(x)) if x == role) {
                viol(c, "begin-role-rejection", format!("role {role}: {r:?}"), &b);
                return;
            }
        }
        c.l.sig(0xbe00 | u64::from(flags));
        c.l.count("flag_bytes_with_full_role_sweep");
    });
    // ---- EndRequest / UnknownType --------------------------------------------------------------------
    ctx.run_fixed("end-request", 256, |c| {
        let st = c.index as u8;
        if c.ctx.miri() && st > 5 && st % 50 != 0 {
            return;
        }
        let mut apps = vec![0u32, 1, 0xff, 0x100, 0xffff_ffff, 0x8000_0000, u32::from_be_bytes(*b"ABRT")];
        for _ in 0..if small { 4 } else { 250 } {
            apps.push(c.rng.u32());
        }
        for app in apps {
            let a = app.to_be_bytes();
            let b = [a[0], a[1], a[2], a[3], st, c.rng.u8(), c.rng.u8(), c.rng.u8()];
            let r = EndRequest::from_bytes(b);
            c.l.evaluations += 1;
            if st <= 3 {
                let Ok(e) = r else {
                    viol(c, "end-rejects-valid", format!("status {st}: {r:?}"), &b);
                    return;
                };
                let want = [a[0], a[1], a[2], a[3], st, 0, 0, 0];
                if e.app_status != app || u8::from(e.protocol_status) != st || e.to_bytes() != want {
                    viol(c, "end-codec", format!("decoded {e:?} re-encoded {}", hex(&e.to_bytes())), &b);
                    return;
                }
                if !matches!(EndRequest::from_bytes(e.to_bytes()), Ok(x) if x == e) {
                    viol(c, "end-roundtrip", "decode(encode(e)) != e".into(), &b);
                    return;
                }
                let id = c.rng.u16();
                let mut model = Vec::new();
                wire::record(&mut model, wire::END, id, &want, 0);
                if e.to_record(id)[..] != model[..] {
                    viol(c, "end-to-record", format!("to_record({id}) = {}", hex(&e.to_record(id))), &model);
                    return;
                }
            } else if !matches!(r, Err(PErr::UnknownStatus(x)) if x == st) {
                viol(c, "end-status-rejection", format!("status {st}: {r:?}"), &b);
                return;
            }
        }
        // UnknownType for the same byte
        let t = st;
        let b = [t, c.rng.u8(), 0xff, 0, 1, 2, 3, 4];
        let u = UnknownType::from_bytes(b);
        let want = [t, 0, 0, 0, 0, 0, 0, 0];
        let id = c.rng.u16();
        let mut model = Vec::new();
        wire::record(&mut model, wire::UNKNOWN, id, &want, 0);
        c.l.evaluations += 1;
        if u.rtype != t || u.to_bytes() != want || UnknownType::from_bytes(u.to_bytes()) != u || u.to_record(id)[..] != model[..] {
            viol(c, "unknowntype-codec", format!("UnknownType for {t}: {u:?} record {}", hex(&u.to_record(id))), &b);
            return;
        }
        c.l.sig(0xe000 | u64::from(st));
    });
    // ---- ExitStatus -> EndRequest -------------------------------------------------------------------
    let n_exit = ctx.size(1 << 16, 1 << 24);
    ctx.run_cases("exit-status", n_exit.div_ceil(4096), |c| {
        for k in 0..4096u32 {
            let app = match k {
                0 => 0,
                1 => 1,
                2 => u32::MAX,
                3 => u32::from_be_bytes(*b"ABRT"),
                4 => 0x8000_0000,
                _ => c.rng.u32(),
            };
            c.l.evaluations += 1;
            let e = EndRequest::from(ExitStatus::Complete(app));
            if e.app_status != app || u8::from(e.protocol_status) != wire::ST_COMPLETE {
                viol(c, "exit-status-complete", format!("Complete({app}) -> {e:?}"), &[]);
                return;
            }
            let e2 = EndRequest::from(ExitStatus::from(app));
            if e2 != e {
                viol(c, "exit-status-from-u32", format!("ExitStatus::from({app}) -> {e2:?}"), &[]);
                return;
            }
        }
        let o = EndRequest::from(ExitStatus::Overloaded);
        let u = EndRequest::from(ExitStatus::UnknownRole);
        if u8::from(o.protocol_status) != wire::ST_OVERLOADED || o.app_status != 0 || u8::from(u.protocol_status) != wire::ST_UNKNOWN_ROLE || u.app_status != 0 {
            viol(c, "exit-status-mapping", format!("Overloaded -> {o:?}, UnknownRole -> {u:?}"), &[]);
        }
        if EndRequest::from(ExitStatus::SUCCESS).app_status != 0
            || EndRequest::from(ExitStatus::ABORT).app_status != u32::from_be_bytes(*b"ABRT")
            || EndRequest::from(ExitStatus::default()) != EndRequest::from(ExitStatus::SUCCESS)
        {
            viol(c, "exit-status-constants", "SUCCESS/ABORT/default map wrongly".into(), &[]);
        }
        c.l.sig(0x3a17 ^ c.index);
    });
    // ---- GetValuesResult generation -------------------------------------------------------------------
    let mut limits: Vec<usize> = vec![1, 2, 5];
    let mut p: u128 = 10;
    while p <= usize::MAX as u128 {
        limits.push((p - 1) as usize);
        limits.push(p as usize);
        limits.push((p + 1).min(usize::MAX as u128) as usize);
        p *= 10;
    }
    limits.extend([usize::MAX - 1, usize::MAX, u32::MAX as usize, u32::MAX as usize + 1, 1 << 31]);
    let n_lim = limits.len() as u64;
    ctx.run_fixed("getvalues-result", n_lim * 8, |c| {
        let bits = (c.index % 8) as u8;
        let limit = limits[(c.index / 8) as usize];
        if c.ctx.miri() && (c.index / 8) % 9 != 0 {
            return;
        }
        let max_prefix = if ctx.scale == Scale::Miri { 9 } else { 40 };
        for plen in 0..=max_prefix {
            let prefix: Vec<u8> = (0..plen).map(|i| 0xC0 | (i as u8 & 0x3f)).collect();
            if !(check_response::<Vec<u8>>(c, bits, limit, &prefix)
                && check_response::<SmallVec<[u8; 104]>>(c, bits, limit, &prefix)
                && check_response::<SmallVec<[u8; 8]>>(c, bits, limit, &prefix))
            {
                return;
            }
        }
        c.l.count("subset_limit_combinations");
        c.l.sig(0x6e70_0000 | c.index);
        if c.index == 7 * 8 + 7 {
            let cfg = Config::with_conns(NonZeroUsize::new(limit).expect("nz"));
            let mut v = Vec::new();
            ProtocolVariables::all().write_response(&mut v, &cfg);
            c.l.sample(Json::obj().with("limit", limit).with("subset", "all").with("record_hex", hex(&v)));
        }
    });
    // ---- parse_name -------------------------------------------------------------------------------------
    ctx.run_cases("parse-name", 1, |c| {
        for (i, name) in wire::KNOWN_VARS.iter().enumerate() {
            c.l.evaluations += 1;
            match ProtocolVariables::parse_name(name.as_bytes()) {
                Ok(v) if v.bits() == 1 << i => {}
                other => viol(c, "parse-name-known", format!("parse_name({name}) = {other:?}"), name.as_bytes()),
            }
        }
        let mut bad: Vec<Vec<u8>> = vec![
            b"".to_vec(),
            b"FCGI_".to_vec(),
            b"FCGI_MAX_CONN".to_vec(),
            b"FCGI_MAX_CONNSS".to_vec(),
            b"FCGI_MAX_CONNS\0".to_vec(),
            b" FCGI_MAX_CONNS".to_vec(),
            b"FCGI_MAX_CONNS|FCGI_MAX_REQS".to_vec(),
            b"FCGI_MAX_CONNS | FCGI_MAX_REQS".to_vec(),
            b"SERVER_NAME".to_vec(),
            b"FCGI_MAX_CONN\xff".to_vec(),
            b"\xffFCGI_MAX_CONNS".to_vec(),
            b"\xc3\x28".to_vec(),
            b"0x01".to_vec(),
            b"1".to_vec(),
        ];
        for _ in 0..if c.ctx.miri() { 40 } else { 2000 } {
            let mut v = c.rng.rbytes(24);
            if c.rng.chance(1, 3) {
                let base = c.rng.pick(&wire::KNOWN_VARS).as_bytes().to_vec();
                v = base;
                let k = c.rng.below(v.len());
                match c.rng.below(3) {
                    0 => v[k] = c.rng.u8() | 0x80,
                    1 => {
                        v.remove(k);
                    }
                    _ => v.insert(k, b'_'),
                }
            }
            if !wire::KNOWN_VARS.iter().any(|k| k.as_bytes() == &v[..]) {
                bad.push(v);
            }
        }
        for b in bad {
            c.l.evaluations += 1;
            // (other letter cases of the known names are deliberately not generated: no property fixes them)
            match guarded(|| ProtocolVariables::parse_name(&b)) {
                Ok(Err(_)) => {}
                Ok(Ok(v)) => viol(c, "parse-name-accepts-unknown", format!("parse_name accepted {:?} as {v:?}", String::from_utf8_lossy(&b)), &b),
                Err(p) => viol(c, &panic_signature(&p), format!("parse_name panicked: {p}"), &b),
            }
        }
        c.l.count("parse_name_sweeps");
    });

    // ---- end-of-request sequence, judged on the transport log -------------------------------------------
    ctx.run_fixed("epilogue", if ctx.miri() { 2 } else { 4 * 9 }, |c| {
        use crate::conn::{self, Barrier, ConnCase, End, Need};
        let id = [1u16, 255, 256, 65535][(c.index % 4) as usize];
        let statuses = [
            ExitStatus::Complete(0),
            ExitStatus::Complete(1),
            ExitStatus::Complete(255),
            ExitStatus::Complete(0x0102_0304),
            ExitStatus::Complete(u32::MAX),
            ExitStatus::ABORT,
            ExitStatus::Overloaded,
            ExitStatus::UnknownRole,
            ExitStatus::SUCCESS,
        ];
        let status = statuses[(c.index / 4) as usize];
        for (role, writes) in [(wire::RESPONDER, true), (wire::AUTHORIZER, true), (wire::FILTER, true), (wire::RESPONDER, false), (wire::FILTER, false)] {
            let mut w = Vec::new();
            let spec_ = crate::gen::ReqSpec {
                id,
                role,
                flags: 0,
                max_pairs: 2,
                max_pair: 40,
                big_pairs: false,
                max_stream_records: 2,
                big_records: false,
                extra_pct_pre: 0,
                extra_pct_stream: 0,
                tag_base: 1,
                extras_pre: &crate::gen::EXTRAS_PREAMBLE,
                extras_stream: &crate::gen::EXTRAS_STREAM,
                marker: None,
            };
            let built = crate::gen::push_request(&mut c.rng, &mut w, &spec_);
            // a handler that writes (and so awaits writeability first) and one that returns at once
            let ops = if writes { vec![crate::handler::Op::Write(wire::STDOUT, 5)] } else { vec![] };
            let script = crate::handler::Script { ops, propagate: true, status };
            let end = w.len();
            let case = ConnCase {
                wire: w,
                reqs: vec![built],
                scripts: vec![script],
                buffer: 256,
                conns: 1,
                beh: crate::transport::Behaviour::random(&mut c.rng),
                barriers: vec![Barrier { offset: end, need: Need::Ended(1) }],
                max_piece: 64,
                close_at_end: true,
                desc: Json::obj().with("id", id).with("status", format!("{status:?}")).with("role", role),
            };
            let Ok(model) = crate::c07::conn_model(&case) else { return };
            let (mut world, _r) = conn::build_world(&case, Rng::new(c.rng.next_u64()));
            if world.run(100_000, |_, _| {}) != End::Finished {
                viol(c, "epilogue-run", format!("connection for id {id} status {status:?} did not finish"), &[]);
                return;
            }
            let out = world.pipe.lock().unwrap_or_else(std::sync::PoisonError::into_inner).outbox.clone();
            let invs = world.log.lock().unwrap().invocations.clone();
            c.l.evaluations += 1;
            match crate::c07::check_conn(&case, &model, &out, &invs, 1, c.l) {
                Ok(_) => c.l.count("epilogues_checked"),
                Err((sig, msg)) => {
                    viol(c, &format!("epilogue:{sig}"), format!("id {id} status {status:?} role {role}: {msg}"), &out);
                    return;
                }
            }
            // the last three records: one empty record per output stream, then EndRequest, all with the request's id
            let (recs, _) = wire::scan(&out);
            let n = recs.len();
            let tail_ok = n >= 3
                && recs[n - 1].rtype == wire::END
                && recs[n - 1].id == id
                && recs[n - 1].len() == 8
                && {
                    let mut t = [recs[n - 3].rtype, recs[n - 2].rtype];
                    t.sort_unstable();
                    t == [wire::STDOUT, wire::STDERR]
                }
                && recs[n - 3..n - 1].iter().all(|r| r.id == id && r.len() == 0 && r.padding == 0);
            if !tail_ok {
                viol(c, "epilogue-shape", format!("id {id} status {status:?} role {role}: the output does not end with empty Stdout, empty Stderr, EndRequest for the request id"), &out);
                return;
            }
        }
        c.l.sig(0xe9 ^ (c.index << 8));
    });
    ctx.gate("epilogues_checked", 4 * 9 * 5);
    ctx.gate("version_type_pairs", if small { 0 } else { 65536 });
    ctx.gate("content_lengths_checked", 65536);
    ctx.gate("subset_limit_combinations", 8 * 20);
    ctx.gate("flag_bytes_with_full_role_sweep", 256);
    ctx.finish(
        "exploration",
        "exhaustive sub-spaces: all 2^16 (version,type) x 64 sampled (id,len,pad,reserved); per known type all 65536 ids, all 65536 content lengths, all 256 paddings and reserved bytes \
         (others sampled); every byte through Version/RecordType/ProtocolStatus/RequestFlags conversions, every u16 through Role; all 65536 lengths through set_lengths; all 2^16 roles x 256 flag bytes \
         through BeginRequest decode/encode/to_record; 256 status bytes x ~257 app statuses through EndRequest; 256 UnknownType bodies; 8 variable subsets x connection limits at every decimal boundary \
         up to usize::MAX x prefix lengths 0..40 x {Vec, SmallVec<104>, SmallVec<8>} through write_response; ExitStatus mapping on boundary + seeded random app statuses; parse_name on the 3 names and ~2000 near-misses. \
         Oracles: harness encoder (wire.rs) and the rules in the property. distinct_nontrivial = distinct enumeration cells completed (set).",
        &["harness encoder is the specification", "reserved header/body bytes are ignored on decode and written as 0", "the end-of-request sequence is judged on the transport log by C07's oracle"],
        false,
        evidence,
    )
}
