//! C05 — no input byte is lost, duplicated or reordered across parser hand-offs.
//! k sequential requests through request::Parser -> stream::Parser -> request::Parser ... on
//! one shared buffer, compared with the reference model and with k separate parses.

use std::path::PathBuf;

use fastcgi_server::parser::request;

use crate::c01::compare_request;
use crate::c02::config;
use crate::ev::{guarded, panic_signature, Case, Ctx, Scale};
use crate::gen::{self, BuiltReq, ReqSpec};
use crate::json::{hex_cap, Json};
use crate::rng::{mix, Rng};
use crate::spec::{self, PreOutcome};
use crate::syncdrive::{self as sd, Chunking, Plan, Policy, SDriver};
use crate::wire;

#[derive(Clone, Copy, Debug, PartialEq, Eq)]
enum Mode {
    /// read every stream to its end; the next request may already be buffered behind the held terminator
    ReadAll,
    /// stop reading part-way (bytes or calls), select None, drain to a record boundary
    Partial,
    /// read nothing
    Nothing,
}

struct Chain {
    bytes: Vec<u8>,
    reqs: Vec<BuiltReq>,
    modes: Vec<Mode>,
    buffer: usize,
    desc: Json,
}

fn gen_chain(rng: &mut Rng) -> Chain {
    let buffer = *rng.pick(&[24usize, 32, 64, 100, 256, 1000, 8192, 8192]);
    let eff = buffer.max(24);
    let k = 1 + rng.below(6);
    let k = if cfg!(miri) { k.min(2) } else { k };
    let mut bytes = Vec::new();
    let mut reqs = Vec::new();
    let mut modes = Vec::new();
    let same_id = rng.chance(1, 2);
    let base_id = gen::gen_request_id(rng);
    for i in 0..k {
        let spec = ReqSpec {
            id: if same_id { base_id } else { gen::gen_request_id(rng) },
            role: gen::gen_role(rng),
            flags: rng.u8() | 1,
            max_pairs: 5,
            max_pair: eff - 13,
            big_pairs: false,
            max_stream_records: 6,
            big_records: eff >= 1000 && rng.chance(1, 8),
            extra_pct_pre: *rng.pick(&[0usize, 20]),
            extra_pct_stream: *rng.pick(&[0usize, 20, 40]),
            tag_base: (i as u8) & 1,
            extras_pre: &gen::EXTRAS_PREAMBLE,
            // foreign BeginRequests are excluded here: one for the *next* request's id would be
            // indistinguishable from pipelining, which the one-request-per-connection model excludes
            extras_stream: &[
                gen::Extra::GetValues,
                gen::Extra::GetValuesEmpty,
                gen::Extra::UnknownType,
                gen::Extra::ForeignStream,
                gen::Extra::ForeignAbort,
                gen::Extra::StaleParams,
                gen::Extra::OddKnown,
                gen::Extra::OutOfRoleStream,
                gen::Extra::GetValuesNonNull,
            ],
            marker: None,
        };
        reqs.push(gen::push_request(rng, &mut bytes, &spec));
        modes.push(*rng.pick(&[Mode::ReadAll, Mode::ReadAll, Mode::Partial, Mode::Nothing]));
    }
    // a partial record / stray bytes of a next record at the very end (look-ahead ending mid-header / mid-payload)
    if rng.chance(1, 2) {
        let mut t = Vec::new();
        wire::record(&mut t, wire::GETVALUES, 0, b"\x0e\x00FCGI_MAX_CONNS", 5);
        let cut = 1 + rng.below(t.len() - 1);
        bytes.extend_from_slice(&t[..cut]);
    }
    let desc = Json::obj()
        .with("buffer_size", buffer)
        .with("requests", k)
        .with("modes", modes.iter().map(|m| format!("{m:?}")).collect::<Vec<_>>())
        .with("roles", reqs.iter().map(|r| r.preamble.role).collect::<Vec<_>>())
        .with("same_request_id", same_id)
        .with("wire_len", bytes.len());
    Chain { bytes, reqs, modes, buffer, desc }
}

fn fail(c: &mut Case, ch: &Chain, i: usize, sig: &str, msg: String, trace: &[String]) {
    c.violation(
        sig,
        Json::obj()
            .with("chain", ch.desc.clone())
            .with("request_index", i)
            .with("problem", msg)
            .with("input_hex", hex_cap(&ch.bytes, 30000))
            .with("last_actions", trace.iter().rev().take(40).rev().cloned().collect::<Vec<_>>()),
    );
}

/// Parses request `i` on its own (a separate connection) and returns (view, stream contents).
fn separate(c: &mut Case, ch: &Chain, i: usize) -> Option<(sd::ReqView, Vec<Vec<u8>>)> {
    let cfg = config(ch.buffer, 1);
    let r = &ch.reqs[i];
    let bytes = &ch.bytes[r.start..r.end];
    let mut chunk = Chunking::Fill;
    let run = sd::drive_request(request::Parser::new(&cfg), bytes, 0, bytes.len(), &mut chunk, &mut c.rng, false);
    if !run.done || !run.problems.is_empty() {
        return None;
    }
    let fed = run.fed;
    let sp = run.parser?.into_stream_parser().ok()?;
    let view = sd::view(&sp.request);
    let order = wire::role_input_streams(r.preamble.role);
    let mut d = SDriver::new(sp, bytes, fed, bytes.len());
    let pol = Policy { dest_pct: 0, dest_max: 1, consume_pct: 100, compress_pct: 100, consume_out_pct: 100 };
    let plans = vec![Plan::ReadAll; order.len()];
    sd::run_schedule(&mut d, &mut c.rng, &mut chunk, &pol, &plans, order, None);
    if !d.ok() || d.err.is_some() {
        return None;
    }
    let contents = order.iter().map(|&t| d.epochs.iter().find(|e| e.stream == Some(t)).map(|e| e.delivered.clone()).unwrap_or_default()).collect();
    Some((view, contents))
}

fn run_chain(c: &mut Case) {
    let ch = gen_chain(&mut c.rng);
    let cfg = config(ch.buffer, 7);
    let structural = sd::structural_offsets(&ch.bytes);
    let total = ch.bytes.len();
    let (scan_recs, scan_tail) = wire::scan(&ch.bytes);
    let rec_starts: Vec<usize> = scan_recs.iter().map(|r| r.off).chain([scan_tail]).collect();

    let mut parser = request::Parser::new(&cfg);
    let mut fed = 0usize; // absolute offset of the next byte to feed
    let mut handoff = 0usize; // absolute offset where un-interpreted bytes begin
    let mut initial0 = false;

    for i in 0..ch.reqs.len() {
        let req_end = ch.reqs[i].end;
        // ---- preamble -------------------------------------------------------------------
        let model = spec::model_preamble(&ch.bytes, handoff);
        let PreOutcome::Done(info) = &model.outcome else {
            fail(c, &ch, i, "harness-model-not-done", format!("{:?}", model.outcome), &[]);
            return;
        };
        let mut chunk = sd::pick_chunking(&mut c.rng, &structural);
        let mut run = sd::drive_request(parser, &ch.bytes, fed, total, &mut chunk, &mut c.rng, initial0);
        if let Some((s, m)) = run.problems.first() {
            fail(c, &ch, i, s, m.clone(), &[]);
            return;
        }
        let fed_at_done = run.fed;
        // a driver that keeps draining the socket after `done` (only bytes of this request: see the domain note)
        if run.done && c.rng.chance(1, 3) && run.fed < req_end {
            match sd::feed_after_done(&mut run, &ch.bytes, req_end, &mut c.rng, 3) {
                Ok(n) if n > 0 => c.l.count("fed_after_done"),
                Ok(_) => {}
                Err(m) => {
                    fail(c, &ch, i, "call-after-done-changes-state", m, &[]);
                    return;
                }
            }
        }
        if !run.done {
            fail(c, &ch, i, "preamble-not-done", format!("request {i}: all input fed ({} bytes) but the request parser is not done (hand-off at {handoff}, preamble ends at {})", run.fed, info.end_off), &[]);
            return;
        }
        if fed_at_done < info.end_off {
            fail(c, &ch, i, "done-early", format!("request {i}: done after {fed_at_done} bytes, preamble ends at {}", info.end_off), &[]);
            return;
        }
        fed = run.fed;
        let rp = run.parser.expect("parser");
        // leftover of request parser == exact suffix
        match guarded(|| rp.clone().into_request()) {
            Ok(Ok((req, leftover))) => {
                if let Err((s, m)) = compare_request(&req, info, &[], c.l) {
                    fail(c, &ch, i, &s, format!("request {i} on the shared buffer chain: {m}"), &[]);
                    return;
                }
                if leftover[..] != ch.bytes[info.end_off..fed] {
                    fail(c, &ch, i, "leftover-not-suffix", format!("request {i}: into_request() leftover ({} bytes) != input[{}..{}]", leftover.len(), info.end_off, fed), &[]);
                    return;
                }
                c.l.count("request_leftovers_checked");
            }
            Ok(Err(e)) => {
                fail(c, &ch, i, "preamble-error", format!("request {i}: {}", sd::err_kind(&e)), &[]);
                return;
            }
            Err(p) => {
                fail(c, &ch, i, &panic_signature(&p), p, &[]);
                return;
            }
        }
        match spec::decode_output(&run.out) {
            Ok((recs, tail)) if tail == run.out.len() => {
                if let Err(m) = spec::replies_match(&model.replies, &recs, "7") {
                    fail(c, &ch, i, "preamble-replies", format!("request {i}: {m}"), &[]);
                    return;
                }
            }
            _ => {
                fail(c, &ch, i, "output-malformed", format!("request {i}: request parser output is not a sequence of complete records"), &[]);
                return;
            }
        }
        // ---- streams ----------------------------------------------------------------------
        let sp = match guarded(|| rp.into_stream_parser()) {
            Ok(Ok(p)) => p,
            Ok(Err(e)) => {
                fail(c, &ch, i, "into-stream-parser-error", sd::err_kind(&e), &[]);
                return;
            }
            Err(p) => {
                fail(c, &ch, i, &panic_signature(&p), p, &[]);
                return;
            }
        };
        let smodel = spec::model_streams(&ch.bytes, info.end_off, info.id, info.role);
        let order = wire::role_input_streams(info.role);
        let mode = if order.is_empty() { Mode::Nothing } else { ch.modes[i] };
        // look-ahead: in ReadAll mode the parser stops at the held terminator, so bytes of the
        // next request may already be buffered; otherwise the peer sends request i+1 only later
        let limit = if mode == Mode::ReadAll { total } else { req_end.max(fed) };
        if limit < fed {
            fail(c, &ch, i, "harness-lookahead", "request parser was fed beyond this request's end in a non-pipelining mode".into(), &[]);
            return;
        }
        let mut d = SDriver::new(sp, &ch.bytes, fed, limit);
        let pol = Policy::random(&mut c.rng);
        let mut chunk2 = sd::pick_chunking(&mut c.rng, &structural);
        let plans: Vec<Plan> = order
            .iter()
            .map(|_| match mode {
                Mode::ReadAll => Plan::ReadAll,
                Mode::Partial => {
                    if c.rng.chance(1, 2) {
                        Plan::ReadAtMost(1 + c.rng.below(300))
                    } else {
                        Plan::AfterCalls(1 + c.rng.below(40))
                    }
                }
                Mode::Nothing => Plan::AfterCalls(0),
            })
            .collect();
        // read-all mode, sometimes: convert at the held terminator as the parser stands — no
        // set_stream(None), stream buffer possibly holding unconsumed bytes
        let direct = mode == Mode::ReadAll && !order.is_empty() && c.rng.chance(1, 3);
        if direct {
            let lazy = Policy { consume_pct: *c.rng.pick(&[0usize, 10]), dest_pct: 0, ..pol.clone() };
            sd::run_schedule_full(&mut d, &mut c.rng, &mut chunk2, &lazy, &plans, order, Some(&smodel), false, true);
            if d.ok() && d.err.is_none() && d.epochs.last().map_or(false, |e| e.end_seen) {
                c.l.count("direct_conversions_at_held_terminator");
                if !d.shadow_stream.is_empty() {
                    c.l.count("direct_conversions_with_unconsumed_stream_buffer");
                }
            }
        } else if mode == Mode::Nothing {
            if d.set_stream(None).is_err() {
                fail(c, &ch, i, "set-stream-none-rejected", "set_stream(None) rejected".into(), &d.trace);
                return;
            }
        } else {
            run_until_none(&mut d, &mut c.rng, &mut chunk2, &pol, &plans, order, &smodel);
        }
        if let Some((s, m)) = d.problems.first().cloned() {
            fail(c, &ch, i, &s, format!("request {i}: {m}"), &d.trace);
            return;
        }
        if let Some(e) = d.err.clone() {
            fail(c, &ch, i, "unexpected-error", format!("request {i}: stream parser failed with {e}"), &d.trace);
            return;
        }
        if d.active().is_some() && !(direct && d.epochs.last().map_or(false, |e| e.end_seen) && d.parser().is_record_boundary()) {
            // wedge / budget: inconclusive
            c.l.count("chains_abandoned_inconclusive");
            return;
        }
        // drain to a record boundary (stream = None)
        let mut guard = 0;
        while !d.parser().is_record_boundary() {
            guard += 1;
            if guard > 100_000 {
                c.l.count("chains_abandoned_inconclusive");
                return;
            }
            if d.space() == 0 {
                d.compress();
            }
            let space = d.space();
            let n = chunk2.next(&mut c.rng, d.fed, space, d.remaining());
            if n == 0 && d.remaining() == 0 {
                // the input ends inside a record: nothing more to hand off
                c.l.count("chains_ending_mid_record");
                return;
            }
            if d.feed_parse(n, None).is_none() {
                break;
            }
        }
        if let Some((s, m)) = d.problems.first().cloned() {
            fail(c, &ch, i, &s, format!("request {i}: {m}"), &d.trace);
            return;
        }
        if d.err.is_some() {
            let e = d.err.clone().unwrap_or_default();
            fail(c, &ch, i, "unexpected-error", format!("request {i}: stream parser failed with {e} while draining"), &d.trace);
            return;
        }
        // stream contents vs the model
        for (si, &t) in order.iter().enumerate() {
            let ms = &smodel.streams[si];
            if let Some(e) = d.epochs.iter().find(|e| e.stream == Some(t)) {
                let ok = if mode == Mode::ReadAll { e.delivered == ms.content } else { ms.content.starts_with(&e.delivered) };
                if !ok {
                    fail(c, &ch, i, "stream-content-mismatch", format!("request {i} stream {t}: delivered {} bytes do not match the model ({} bytes, mode {mode:?})", e.delivered.len(), ms.content.len()), &d.trace);
                    return;
                }
            }
        }
        // differential: the same request parsed on a separate connection
        if mode == Mode::ReadAll {
            if let Some((view, contents)) = separate(c, &ch, i) {
                let chain_view = sd::view(&d.parser().request);
                if view != chain_view {
                    fail(c, &ch, i, "differs-from-separate-connection", format!("request {i}: environment on the chain differs from the same request parsed alone"), &d.trace);
                    return;
                }
                for (si, &t) in order.iter().enumerate() {
                    let got = d.epochs.iter().find(|e| e.stream == Some(t)).map(|e| e.delivered.clone()).unwrap_or_default();
                    if got != contents[si] {
                        fail(c, &ch, i, "differs-from-separate-connection", format!("request {i} stream {t}: {} bytes on the chain, {} bytes alone", got.len(), contents[si].len()), &d.trace);
                        return;
                    }
                }
                c.l.count("differential_comparisons");
            }
        }
        // ---- hand-off --------------------------------------------------------------------------
        let Some(off) = d.probe_leftover() else {
            if let Some((s, m)) = d.problems.first().cloned() {
                fail(c, &ch, i, &s, format!("request {i}: {m}"), &d.trace);
            }
            return;
        };
        if !rec_starts.contains(&off) {
            fail(c, &ch, i, "handoff-not-at-record-start", format!("request {i}: unread remainder starts at offset {off}, which is not a record boundary of the input"), &d.trace);
            return;
        }
        if off < info.end_off {
            fail(c, &ch, i, "handoff-before-preamble-end", format!("request {i}: unread remainder starts at {off}, before the preamble's end {}", info.end_off), &d.trace);
            return;
        }
        let lookahead = d.fed - off;
        c.l.count(match lookahead {
            0 => "handoff_lookahead_0",
            1..=7 => "handoff_lookahead_partial_header",
            _ => "handoff_lookahead_records",
        });
        if d.fed > req_end {
            c.l.count("handoff_with_next_request_buffered");
        }
        // replies owed for the part of the stream phase that was interpreted
        let owed: Vec<_> = smodel.replies.iter().filter(|r| r.src_end <= off).cloned().collect();
        match spec::decode_output(&d.out_all) {
            Ok((recs, tail)) if tail == d.out_all.len() => {
                if let Err(m) = spec::replies_match(&owed, &recs, "7") {
                    fail(c, &ch, i, "stream-phase-replies", format!("request {i}: {m}"), &d.trace);
                    return;
                }
            }
            _ => {
                fail(c, &ch, i, "output-malformed", format!("request {i}: stream parser output is not a sequence of complete records"), &d.trace);
                return;
            }
        }
        let len = d.shadow_out.len();
        d.consume_output(len);
        fed = d.fed;
        handoff = off;
        let trace = d.trace.clone();
        let sp = d.p.take().expect("parser");
        if i + 1 == ch.reqs.len() {
            // end of the chain: into_input must be the exact unread suffix
            match guarded(|| sp.into_input()) {
                Ok(Ok(v)) => {
                    if v[..] != ch.bytes[off..fed] {
                        fail(c, &ch, i, "leftover-not-suffix", format!("final into_input(): {} bytes != input[{off}..{fed}]", v.len()), &trace);
                        return;
                    }
                    c.l.count("final_into_input_checked");
                }
                Ok(Err(e)) => {
                    fail(c, &ch, i, "into-input-error", sd::err_kind(&e), &trace);
                    return;
                }
                Err(p) => {
                    fail(c, &ch, i, &panic_signature(&p), p, &trace);
                    return;
                }
            }
            break;
        }
        parser = match guarded(|| sp.into_request_parser()) {
            Ok(Ok(p)) => p,
            Ok(Err(e)) => {
                fail(c, &ch, i, "into-request-parser-error", sd::err_kind(&e), &trace);
                return;
            }
            Err(p) => {
                fail(c, &ch, i, &panic_signature(&p), p, &trace);
                return;
            }
        };
        initial0 = true;
        c.l.count("handoffs_stream_to_request");
        c.l.count(&format!("mode_{mode:?}"));
    }
    c.l.count("chains_completed");
    c.l.add("requests_in_completed_chains", ch.reqs.len() as u64);
    if ch.reqs.len() > 1 {
        c.l.sig(mix(crate::rng::hash_bytes(5, &ch.bytes[..ch.bytes.len().min(300)]), ch.bytes.len() as u64));
    }
    if c.index < 2 {
        c.l.sample(ch.desc.clone());
    }
}

/// Like `run_schedule`, but returns as soon as the caller has selected `None` (without parsing
/// any further), so that look-ahead behind a held terminator stays un-interpreted.
fn run_until_none(d: &mut SDriver, rng: &mut Rng, chunk: &mut Chunking, pol: &Policy, plans: &[Plan], order: &[u8], model: &spec::StreamModel) {
    sd::run_schedule_ext(d, rng, chunk, pol, plans, order, Some(model), true);
}

/// The conversion chain as driven by `Token::run`, with look-ahead that holds the next request(s).
fn async_chain(c: &mut Case) {
    use crate::conn::{self, GenOpts};
    let mut case = conn::gen_conn(&mut c.rng, &GenOpts { max_requests: 3, extra_pct: 10, big: false, keep_conn_pct: 100, no_begin_extras: false });
    if case.reqs.iter().any(|r| r.preamble.role == wire::AUTHORIZER) {
        // no terminator behind which look-ahead can wait (DESIGN §9.4)
        return;
    }
    conn::make_pipelined(&mut case);
    let before = c.l.counters.get("connections_reused").copied().unwrap_or(0);
    crate::c07::run_case(c, case);
    let reused = c.l.counters.get("connections_reused").copied().unwrap_or(0) - before;
    c.l.add("async_chain_connections_reused", reused);
}

pub fn run(ctx: &Ctx, evidence: Option<&PathBuf>) -> i32 {
    ctx.run_fixed("directed", if ctx.miri() { 2 } else { ctx.dn(300) }, run_chain);
    let n = ctx.size3(30_000, 3_000_000, 3);
    ctx.run_cases("chains", n, run_chain);
    let _ = Scale::Full;
    // the crate's own user of the conversion chain (Token::run) with the whole next request in the
    // look-ahead at the stream -> request hand-off
    ctx.run_cases("async-chain", ctx.size3(1_500, 150_000, 2), async_chain);
    ctx.gate("handoffs_stream_to_request", 500);
    ctx.gate("handoff_lookahead_0", 20);
    ctx.gate("handoff_lookahead_partial_header", 20);
    ctx.gate("handoff_lookahead_records", 20);
    ctx.gate("handoff_with_next_request_buffered", 20);
    ctx.gate("mode_Partial", 50);
    ctx.gate("mode_Nothing", 50);
    ctx.gate("differential_comparisons", 100);
    ctx.gate("final_into_input_checked", 100);
    ctx.gate("fed_after_done", 100);
    ctx.gate("direct_conversions_with_unconsumed_stream_buffer", 50);
    if !ctx.miri() {
        ctx.gate("async_chain_connections_reused", 100);
    }
    ctx.finish(
        "exploration",
        "chains of k=1..6 requests (all roles, same or different ids, interleaved management / stray records, optional partial record at the very end) through request::Parser -> into_stream_parser -> \
         {read every stream to its end | stop part-way after n bytes or n calls | read nothing} -> set_stream(None) -> parse to a record boundary -> consume output -> into_request_parser -> ... with one shared buffer \
         (sizes 24..8192) and independent chunkings per phase, final into_input(). At every hand-off: into_request().1 and clone().into_input() equal the exact unread suffix (bytes + offset, which must be a record start), \
         every request's id/role/flags/environment and stream contents equal the reference model from the hand-off offset AND (read-all mode) the same request parsed on a separate connection; stale records of abandoned requests produce only the replies the model owes. \
         Domain note: when streams are left unread the next request's bytes are fed only after the hand-off (one outstanding request per connection); behind a held terminator any amount of look-ahead incl. the next request is buffered. \
         Async chain: keep-alive connections of 1..3 Responder/Filter requests sent by a client that does not wait for EndRequest (everything in one piece, 8 KiB buffer) through Token::run with handlers that read their streams to the end: \
         the k handler invocations see exactly the k environments and stream contents of the model and every request is answered (full C07 oracle). \
         distinct_nontrivial = distinct multi-request chain digests completed (set).",
        &["reference model spec.rs", "clone().into_input() is a faithful non-destructive probe of the hand-off state"],
        false,
        evidence,
    )
}
