//! Independent FastCGI wire codec used by generators and oracles.
//! Written from the FastCGI 1.0 specification; shares no code with the crate under test
//! (the crate's own codec is itself a verification target, C15-C17).

use std::ops::Range;

pub const BEGIN: u8 = 1;
pub const ABORT: u8 = 2;
pub const END: u8 = 3;
pub const PARAMS: u8 = 4;
pub const STDIN: u8 = 5;
pub const STDOUT: u8 = 6;
pub const STDERR: u8 = 7;
pub const DATA: u8 = 8;
pub const GETVALUES: u8 = 9;
pub const GETVALUESRESULT: u8 = 10;
pub const UNKNOWN: u8 = 11;

pub const RESPONDER: u16 = 1;
pub const AUTHORIZER: u16 = 2;
pub const FILTER: u16 = 3;

pub const ST_COMPLETE: u8 = 0;
pub const ST_CANT_MPX: u8 = 1;
pub const ST_OVERLOADED: u8 = 2;
pub const ST_UNKNOWN_ROLE: u8 = 3;

pub const KNOWN_VARS: [&str; 3] = ["FCGI_MAX_CONNS", "FCGI_MAX_REQS", "FCGI_MPXS_CONNS"];

/// Appends one record with an explicit version byte and reserved byte.
pub fn record_raw(out: &mut Vec<u8>, version: u8, rtype: u8, id: u16, content: &[u8], padding: u8, reserved: u8) {
    assert!(content.len() <= 65535);
    out.push(version);
    out.push(rtype);
    out.extend_from_slice(&id.to_be_bytes());
    out.extend_from_slice(&(content.len() as u16).to_be_bytes());
    out.push(padding);
    out.push(reserved);
    out.extend_from_slice(content);
    // padding bytes are arbitrary per the specification; use a recognisable non-zero filler
    for i in 0..padding {
        out.push(0xA0 | (i & 0x0f));
    }
}

pub fn record(out: &mut Vec<u8>, rtype: u8, id: u16, content: &[u8], padding: u8) {
    record_raw(out, 1, rtype, id, content, padding, 0);
}

pub fn begin_body(role: u16, flags: u8) -> [u8; 8] {
    let r = role.to_be_bytes();
    [r[0], r[1], flags, 0, 0, 0, 0, 0]
}

pub fn begin_request(out: &mut Vec<u8>, id: u16, role: u16, flags: u8, padding: u8) {
    record(out, BEGIN, id, &begin_body(role, flags), padding);
}

pub fn varint(out: &mut Vec<u8>, v: u32, force4: bool) {
    assert!(v < (1 << 31));
    if v < 128 && !force4 {
        out.push(v as u8);
    } else {
        out.extend_from_slice(&(v | 0x8000_0000).to_be_bytes());
    }
}

pub fn nv_pair(out: &mut Vec<u8>, name: &[u8], value: &[u8], force4_name: bool, force4_val: bool) {
    varint(out, name.len() as u32, force4_name);
    varint(out, value.len() as u32, force4_val);
    out.extend_from_slice(name);
    out.extend_from_slice(value);
}

#[derive(Clone, Debug, PartialEq, Eq)]
pub struct Rec {
    pub off: usize,
    pub version: u8,
    pub rtype: u8,
    pub id: u16,
    pub content: Range<usize>,
    pub padding: u8,
    /// offset one past the padding
    pub end: usize,
}

impl Rec {
    pub fn len(&self) -> usize {
        self.content.len()
    }
    pub fn body<'a>(&self, bytes: &'a [u8]) -> &'a [u8] {
        &bytes[self.content.clone()]
    }
}

/// Splits a byte string into complete records (no validation of version / type).
/// Returns the records and the offset where the incomplete tail (if any) begins.
pub fn scan(bytes: &[u8]) -> (Vec<Rec>, usize) {
    let mut recs = Vec::new();
    let mut off = 0;
    loop {
        if bytes.len() - off < 8 {
            return (recs, off);
        }
        let h = &bytes[off..off + 8];
        let clen = usize::from(u16::from_be_bytes([h[4], h[5]]));
        let pad = usize::from(h[6]);
        let end = off + 8 + clen + pad;
        if end > bytes.len() {
            return (recs, off);
        }
        recs.push(Rec {
            off,
            version: h[0],
            rtype: h[1],
            id: u16::from_be_bytes([h[2], h[3]]),
            content: (off + 8)..(off + 8 + clen),
            padding: h[6],
            end,
        });
        off = end;
    }
}

/// Model varint reader: returns (value, bytes used) or None if truncated.
pub fn read_varint(b: &[u8]) -> Option<(u32, usize)> {
    let first = *b.first()?;
    if first & 0x80 == 0 {
        Some((u32::from(first), 1))
    } else if b.len() >= 4 {
        Some((u32::from_be_bytes([first & 0x7f, b[1], b[2], b[3]]), 4))
    } else {
        None
    }
}

/// Model name-value decoder: complete pairs as (name range, value range) into `b`,
/// plus the offset of the undecoded suffix.
pub fn decode_nv_ranges(b: &[u8]) -> (Vec<(Range<usize>, Range<usize>)>, usize) {
    let mut out = Vec::new();
    let mut off = 0usize;
    loop {
        let rest = &b[off..];
        let Some((nl, a)) = read_varint(rest) else { return (out, off) };
        let Some((vl, c)) = read_varint(&rest[a..]) else { return (out, off) };
        let head = a + c;
        let total = (head as u64) + u64::from(nl) + u64::from(vl);
        if (rest.len() as u64) < total {
            return (out, off);
        }
        let ns = off + head;
        let vs = ns + nl as usize;
        let ve = vs + vl as usize;
        out.push((ns..vs, vs..ve));
        off = ve;
    }
}

pub fn decode_nv(b: &[u8]) -> (Vec<(Vec<u8>, Vec<u8>)>, usize) {
    let (r, off) = decode_nv_ranges(b);
    (r.into_iter().map(|(n, v)| (b[n].to_vec(), b[v].to_vec())).collect(), off)
}

/// Is `t` one of the 11 record types the specification defines?
pub fn known_type(t: u8) -> bool {
    (1..=11).contains(&t)
}

pub fn role_input_streams(role: u16) -> &'static [u8] {
    match role {
        RESPONDER => &[STDIN],
        FILTER => &[STDIN, DATA],
        _ => &[],
    }
}

pub fn type_name(t: u8) -> &'static str {
    match t {
        1 => "BeginRequest",
        2 => "AbortRequest",
        3 => "EndRequest",
        4 => "Params",
        5 => "Stdin",
        6 => "Stdout",
        7 => "Stderr",
        8 => "Data",
        9 => "GetValues",
        10 => "GetValuesResult",
        11 => "Unknown",
        _ => "?",
    }
}
