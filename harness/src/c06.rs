//! C06 — documented buffer bound suffices; lack of space is reported, never waited on.

use std::collections::BTreeSet;
use std::path::PathBuf;

use fastcgi_server::parser::request;

use crate::c01::{check_pre, Pre};
use crate::c02::config;
use crate::ev::{guarded, panic_signature, Case, Ctx, Scale};
use crate::gen::{self, Cuts, Pair};
use crate::json::Json;
use crate::rng::{mix, Rng};
use crate::syncdrive::{self as sd, Chunking};
use crate::wire;

/// A parsed (empty) request, needed to construct stream parsers directly.
fn sample_request() -> fastcgi_server::parser::Request {
    let cfg = config(64, 1);
    let mut bytes = Vec::new();
    wire::begin_request(&mut bytes, 1, 1, 1, 0);
    wire::record(&mut bytes, wire::PARAMS, 1, &[], 0);
    let mut p = request::Parser::new(&cfg);
    p.input_buffer()[..bytes.len()].copy_from_slice(&bytes);
    let _ = p.parse(bytes.len());
    p.into_request().expect("well-formed preamble").0
}

fn check_size(c: &mut Case, size: usize) -> bool {
    let cfg = config(size, 1);
    // every way to obtain a parser buffer obeys the same sizing rule
    thread_local! {
        static REQ: fastcgi_server::parser::Request = sample_request();
    }
    if size % 7 == 0 || size < 4096 {
        let r = guarded(|| {
            let req = REQ.with(Clone::clone);
            let mut sp = fastcgi_server::parser::stream::Parser::new(&cfg, req);
            let a = sp.input_buffer().len();
            let b = sp.into_request_parser().map(|mut rp| rp.input_buffer().len());
            (a, b)
        });
        match r {
            Ok((a, Ok(b))) => {
                c.l.count("stream_parser_new_sizes_checked");
                for (what, eff) in [("stream::Parser::new", a), ("stream::Parser::new(..).into_request_parser()", b)] {
                    if eff < size || eff < 24 || eff % 8 != 0 {
                        c.violation("effective-buffer-size-stream-new", Json::obj().with("buffer_size", size).with("effective", eff).with("constructor", what));
                        return false;
                    }
                }
            }
            Ok((_, Err(e))) => {
                c.violation("stream-new-conversion", Json::obj().with("buffer_size", size).with("error", sd::err_kind(&e)));
                return false;
            }
            Err(p) => {
                c.violation(panic_signature(&p), Json::obj().with("buffer_size", size).with("panic", p));
                return false;
            }
        }
    }
    let r = guarded(|| {
        let mut p = request::Parser::new(&cfg);
        p.input_buffer().len()
    });
    c.l.evaluations += 1;
    match r {
        Ok(eff) => {
            if eff < size || eff < 24 || eff % 8 != 0 {
                c.violation(
                    "effective-buffer-size",
                    Json::obj().with("buffer_size", size).with("effective", eff).with("problem", "effective buffer must be >= configured, >= 24 and a multiple of 8"),
                );
                return false;
            }
            true
        }
        Err(p) => {
            c.violation(panic_signature(&p), Json::obj().with("buffer_size", size).with("panic", p));
            false
        }
    }
}

/// A preamble whose largest pair has name+value = `total` exactly.
fn critical_pre(rng: &mut Rng, buffer: usize, total: usize) -> (Pre, &'static str) {
    let name_len = {
        let cands = [0usize, 1, 2, 126, 127, 128, 129, total / 2, total.saturating_sub(129), total.saturating_sub(128), total.saturating_sub(127), total.saturating_sub(1), total];
        let x = *rng.pick(&cands);
        x.min(total)
    };
    let crit = Pair { name: gen::gen_name(rng, name_len, &[]), value: Vec::new(), f4n: rng.chance(1, 2), f4v: rng.chance(1, 2) };
    let mut crit = crit;
    crit.name.truncate(name_len);
    while crit.name.len() < name_len {
        crit.name.push(b'n');
    }
    crit.value = rng.bytes(total - name_len);
    let small = |rng: &mut Rng| {
        let mut v = gen::gen_pairs(rng, 3, total.min(40), false);
        v.truncate(3);
        v
    };
    let (mut pairs, pos, place) = match rng.below(3) {
        0 => (vec![], 0usize, "first"),
        1 => {
            let v = small(rng);
            let n = v.len();
            (v, n, "last")
        }
        _ => {
            let v = small(rng);
            let n = v.len() / 2;
            (v, n, "middle")
        }
    };
    pairs.insert(pos.min(pairs.len()), crit.clone());
    if place != "last" && place != "first" {
        let more = small(rng);
        pairs.extend(more);
    } else if place == "first" {
        let more = small(rng);
        pairs.extend(more);
    }
    // offsets of the critical pair inside the payload
    let mut payload = Vec::new();
    let mut crit_range = 0..0;
    for (i, p) in pairs.iter().enumerate() {
        let s = payload.len();
        p.encode(&mut payload);
        if i == pos.min(pairs.len() - 1) && p.size() == total {
            crit_range = s..payload.len();
        }
    }
    let (cuts, where_) = match rng.below(6) {
        0 => (Cuts::None, "one-record"),
        1 if crit_range.start > 0 => (Cuts::At(vec![crit_range.start]), "pair-starts-record"),
        2 if crit_range.end < payload.len() => (Cuts::At(vec![crit_range.end]), "pair-ends-record"),
        3 if crit_range.len() > 2 => {
            let k = crit_range.start + 1 + rng.below(crit_range.len() - 1);
            (Cuts::At(vec![k]), "pair-across-2-records")
        }
        4 if crit_range.len() > 12 => {
            let mut v: Vec<usize> = (0..3).map(|_| crit_range.start + 1 + rng.below(crit_range.len() - 1)).collect();
            v.sort_unstable();
            v.dedup();
            (Cuts::At(v), "pair-across-3plus-records")
        }
        _ => (gen::gen_cuts(rng, &payload, &pairs), "random-cuts"),
    };
    let id = gen::gen_request_id(rng);
    let mut bytes = Vec::new();
    let extra_pct = *rng.pick(&[0usize, 0, 20]);
    let (role, flags) = (1 + rng.below(3) as u16, rng.u8());
    let pre = gen::push_preamble(rng, &mut bytes, id, role, flags, &pairs, &cuts, extra_pct, &gen::EXTRAS_PREAMBLE, buffer.max(24) - 13);
    let t = rng.rbytes(40);
    bytes.extend_from_slice(&t);
    let desc = Json::obj()
        .with("buffer_size", buffer)
        .with("critical_pair", format!("name {}{} + value {}{} = {}", name_len, if crit.f4n { "*" } else { "" }, total - name_len, if crit.f4v { "*" } else { "" }, total))
        .with("placement", place)
        .with("segmentation", where_)
        .with("pairs", pairs.len())
        .with("interleaved_records", pre.n_extras);
    let sig = mix(mix(buffer as u64, name_len as u64), crate::rng::hash_str(where_) ^ crate::rng::hash_str(place) ^ (u64::from(crit.f4n) << 1 | u64::from(crit.f4v)));
    (Pre { bytes, buffer, pairs, desc, cut_classes: BTreeSet::new(), sig }, where_)
}

fn buffer_sizes(rng: &mut Rng, scale: Scale) -> usize {
    match rng.below(10) {
        0..=3 => 13 + rng.below(52),                 // 13..64: every residue, around the 24-byte minimum
        4 | 5 => 127 + rng.below(30) + 13,           // pairs straddling the 127/128 encoding boundary
        6 => 8192 - 8 + rng.below(17),
        7 => 256 + rng.below(64),
        8 if scale == Scale::Full => 65536 - 8 + rng.below(17),
        _ => 24 + rng.below(1200),
    }
}

pub fn run(ctx: &Ctx, evidence: Option<&PathBuf>) -> i32 {
    // ---- sizing rule -------------------------------------------------------------------------
    let full_sweep_to: usize = if ctx.thorough() && ctx.scale == Scale::Full {
        1 << 20
    } else {
        match ctx.scale {
            Scale::Full => 1 << 16,
            Scale::San => 1 << 12,
            Scale::Miri => 80,
        }
    };
    const CH: usize = 1024;
    ctx.run_fixed("sizing-sweep", (full_sweep_to / CH + 1) as u64, |c| {
        let lo = c.index as usize * CH;
        for s in lo..(lo + CH).min(full_sweep_to + 1) {
            if !check_size(c, s) {
                return;
            }
            c.l.count("buffer_sizes_checked");
        }
        c.l.sig(0x5123 ^ c.index);
    });
    if full_sweep_to < (1 << 20) && ctx.scale != Scale::Miri {
        // quick: beyond the exhaustive range every residue mod 8 around each 4 KiB multiple up to 1 MiB
        ctx.run_fixed("sizing-strided", 256, |c| {
            let base = (c.index as usize + 1) * 4096;
            for d in 0..24usize {
                if !check_size(c, base - 12 + d) {
                    return;
                }
                c.l.count("buffer_sizes_checked");
            }
        });
    }
    ctx.extra("sizing_rule_exhaustive_up_to", full_sweep_to);

    // ---- the documented bound B-13 -------------------------------------------------------------
    let n = ctx.size(40_000, 4_000_000);
    let bound_case = |c: &mut Case, directed: bool| {
        let buffer = if directed { 13 + (c.index as usize % 180) } else { buffer_sizes(&mut c.rng, ctx.scale) };
        if buffer < 13 {
            return;
        }
        let total = buffer - 13;
        let (pre, where_) = critical_pre(&mut c.rng, buffer, total);
        let structural = sd::structural_offsets(&pre.bytes);
        let mut chunkings = sd::all_chunkings(&mut c.rng, &structural);
        if buffer > 20000 {
            chunkings.retain(|ch| !matches!(ch, Chunking::OneByte));
        }
        let k = c.rng.below(chunkings.len());
        chunkings.swap(0, k);
        for ch in chunkings.iter_mut().take(2) {
            if !check_pre(c, &pre, 1, ch) {
                return;
            }
            c.l.evaluations += 1;
            c.l.sig(mix(pre.sig, crate::rng::hash_str(ch.family())));
        }
        c.l.count("preambles_at_bound");
        c.l.count(&format!("seg_{where_}"));
        c.l.count(&format!("buffer_mod8_{}", buffer % 8));
        if c.index == 17 {
            c.l.sample(pre.desc.clone());
        }
    };
    ctx.run_fixed("bound-directed", ctx.dn(720), |c| bound_case(c, true));
    ctx.run_cases("bound", n, |c| bound_case(c, false));

    // ---- beyond the bound: information only + the never-wait invariant ------------------------------
    let n2 = ctx.size(8_000, 400_000);
    ctx.run_cases("beyond-bound", n2, |c| {
        let buffer = 24 + c.rng.below(400);
        let eff = (buffer + 7) & !7;
        let slack = c.rng.below(20); // total = B - 12 + slack ... crosses the true limit
        let total = buffer.saturating_sub(12) + slack;
        let (pre, where_) = critical_pre(&mut c.rng, buffer, total);
        let both4 = pre.pairs.iter().any(|p| p.size() == total && (p.f4n || p.name.len() >= 128) && (p.f4v || p.value.len() >= 128));
        let cfg = config(buffer, 1);
        let mut ch = sd::pick_chunking(&mut c.rng, &[]);
        let run = sd::drive_request(request::Parser::new(&cfg), &pre.bytes, 0, pre.bytes.len(), &mut ch, &mut c.rng, false);
        c.l.evaluations += 1;
        if let Some((s, m)) = run.problems.first() {
            c.violation(s.clone(), Json::obj().with("case", pre.desc.clone()).with("problem", m.clone()).with("chunking", ch.family()));
            return;
        }
        let parser = run.parser.expect("parser");
        let res = parser.into_request();
        let d = total as i64 - (buffer as i64 - 13);
        match res {
            Ok(_) => {
                c.l.count("beyond_bound_parsed_ok");
                let _ = d;
                if where_ == "one-record" && both4 {
                    // information only: largest pair (8-byte length header, kept in one record) that still parsed,
                    // relative to the effective buffer size, stored with an offset of +100 (expected 92 = B_eff - 8)
                    c.l.max("max_info_tight_limit_total_minus_effective_buffer_plus_100", (total as i64 - eff as i64 + 100).max(0) as u64);
                }
            }
            Err(e) => {
                let k = sd::err_kind(&e);
                if k == "StuckOnInput" {
                    c.l.count("beyond_bound_stuck_reported");
                } else if k == "Interrupted" && !run.done {
                    c.violation("beyond-bound-not-done", Json::obj().with("case", pre.desc.clone()).with("problem", "all input fed, parser neither done nor stuck"));
                } else {
                    c.violation(format!("beyond-bound-error-{k}"), Json::obj().with("case", pre.desc.clone()));
                }
            }
        }
        c.l.sig(mix(pre.sig, 0xbe));
    });

    // the stream parser inherits the same buffer
    ctx.run_fixed("stream-parser-buffer", 1, |c| {
        for size in [0usize, 1, 23, 24, 25, 31, 32, 33, 100, 8191, 8192, 8193, 65537] {
            let cfg = config(size, 1);
            let mut bytes = Vec::new();
            wire::begin_request(&mut bytes, 1, 1, 0, 0);
            wire::record(&mut bytes, wire::PARAMS, 1, &[], 0);
            let mut ch = Chunking::Fill;
            let run = sd::drive_request(request::Parser::new(&cfg), &bytes, 0, bytes.len(), &mut ch, &mut c.rng, false);
            let Some(p) = run.parser else { continue };
            if let Ok(mut sp) = p.into_stream_parser() {
                let eff = sp.input_buffer().len();
                c.l.evaluations += 1;
                c.l.count("stream_parser_buffers_checked");
                if eff < size || eff < 24 || eff % 8 != 0 {
                    c.violation("effective-buffer-size-stream", Json::obj().with("buffer_size", size).with("effective", eff));
                }
            }
        }
    });

    ctx.gate("buffer_sizes_checked", if ctx.scale == Scale::Miri { 50 } else { 4000 });
    ctx.gate("preambles_at_bound", 500);
    for g in ["seg_one-record", "seg_pair-across-2-records", "seg_pair-starts-record", "seg_pair-ends-record"] {
        ctx.gate(g, 20);
    }
    for r in 0..8 {
        ctx.gate(&format!("buffer_mod8_{r}"), 20);
    }
    ctx.gate("beyond_bound_stuck_reported", 20);
    ctx.finish(
        "exploration",
        "(1) sizing rule: Parser::new(&cfg).input_buffer().len() >= configured, >= 24, multiple of 8 for EVERY buffer_size 0..=65536 (quick; plus all residues around each 4 KiB multiple up to 1 MiB) / 0..=1048576 (thorough, exhaustive). \
         (2) bound: preambles whose largest pair has name+value = B-13 exactly, name/value split swept over {0,1,2,126..129, total-129..total, total/2}, forced 4-byte encodings, critical pair first/middle/last, kept in one record / starting / ending a record / cut across 2 and 3+ records, \
         B over every residue mod 8 in 13..64, 140..170, 256..320, 8184..8200, 65528..65544, random 24..1224; two chunking families per case (1-byte, fill incl. exactly-full reads, random, 50..256, surgical): never StuckOnInput, full C01 oracle. \
         (3) invariant after EVERY parse() call of every run: done==false => input_buffer() non-empty. (4) beyond the bound (B-12..B+7): outcome recorded for information, verdict only on the invariant / on a parser that is neither done nor stuck. \
         distinct_nontrivial = distinct (buffer, split, encodings, placement, segmentation, chunking family) (set).",
        &["reference decoder spec.rs", "buffer sizes beyond 1 MiB are not explored"],
        false,
        evidence,
    )
}
