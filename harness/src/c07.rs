//! C07 — per request: one handler call, one correct EndRequest, correct connection reuse.
//! Also hosts the connection-level oracle shared with C11/C12/C14/C17.

use std::path::PathBuf;

use fastcgi_server::ExitStatus;

use crate::conn::{self, ConnCase, End, GenOpts, World};
use crate::ev::{Case, Ctx, Scale};
use crate::handler::{Invocation, Op, Script};
use crate::json::{hex_cap, Json};
use crate::rng::mix;
use crate::spec::{self, ModelReply, OutRec, PreOutcome, ReqInfo, StreamModel};
use crate::wire;

#[derive(Clone, Copy, Debug, PartialEq, Eq)]
pub enum ReqKind {
    Normal,
    /// AbortRequest for the request's id arrived during the Params stream
    AbortedInParams,
    /// AbortRequest arrived after the preamble (offset of the abort record)
    AbortedLater(usize),
}

pub struct ReqModel {
    pub kind: ReqKind,
    pub info: ReqInfo,
    pub streams: StreamModel,
    /// replies owed for records of this request's span (preamble + stream phase), arrival order
    pub replies: Vec<ModelReply>,
}

/// Reference interpretation of the whole connection wire.
pub fn conn_model(case: &ConnCase) -> Result<Vec<ReqModel>, String> {
    let mut v = Vec::new();
    let mut off = 0usize;
    for r in &case.reqs {
        let upto = &case.wire[..r.end];
        let pre = spec::model_preamble(upto, off);
        let info = match pre.outcome {
            PreOutcome::Done(info) => info,
            PreOutcome::Incomplete if pre.aborted.contains(&r.preamble.id) => {
                // aborted during Params: answered by the parser, never handed to a handler
                let info = ReqInfo { id: r.preamble.id, role: r.preamble.role, flags: r.preamble.flags, env: Default::default(), begin_off: r.start, end_off: r.end };
                let streams = StreamModel { streams: Vec::new(), replies: Vec::new(), abort_off: None, scanned_to: r.end };
                off = r.end;
                v.push(ReqModel { kind: ReqKind::AbortedInParams, info, streams, replies: pre.replies });
                continue;
            }
            other => return Err(format!("model: preamble of the request at {} not complete: {other:?}", r.start)),
        };
        if !pre.aborted.is_empty() {
            return Err("model: unexpected abort before a completed preamble inside one request span".into());
        }
        let streams = spec::model_streams(upto, info.end_off, info.id, info.role);
        let mut replies = pre.replies;
        replies.extend(streams.replies.iter().cloned());
        let mut kind = ReqKind::Normal;
        if let Some(a) = streams.abort_off {
            kind = ReqKind::AbortedLater(a);
            // records behind the abort are never seen by the stream parser; the next request
            // parser treats them as stray records (management queries are still answered)
            let (recs, _) = wire::scan(&upto[a..]);
            if let Some(first) = recs.first() {
                let stale = spec::model_preamble(upto, a + first.end);
                replies.extend(stale.replies);
            }
        }
        off = r.end;
        v.push(ReqModel { kind, info, streams, replies });
    }
    Ok(v)
}

pub fn status_fields(s: ExitStatus) -> (u8, u32) {
    match s {
        ExitStatus::Complete(c) => (wire::ST_COMPLETE, c),
        ExitStatus::Overloaded => (wire::ST_OVERLOADED, 0),
        ExitStatus::UnknownRole => (wire::ST_UNKNOWN_ROLE, 0),
    }
}

/// Concatenated bytes the handler read per stream type.
pub fn reads_of(inv: &Invocation, t: u8) -> Vec<u8> {
    let mut v = Vec::new();
    for (s, b) in &inv.reads {
        if *s == t {
            v.extend_from_slice(b);
        }
    }
    v
}

/// Wire offset up to which the stream parser must have consumed for the handler to have seen
/// what it saw (None: it saw nothing that pins a position beyond the preamble).
fn provably_read_past(inv: &Invocation, m: &ReqModel) -> usize {
    let mut pos = m.info.end_off;
    for si in &m.streams.streams {
        let n = reads_of(inv, si.rtype).len();
        if n > 0 {
            let mut acc = 0;
            for (rec_off, range) in &si.segments {
                acc += range.len();
                if acc >= n {
                    pos = pos.max(*rec_off);
                    break;
                }
            }
        }
        if inv.eofs.contains(&si.rtype) {
            if let Some(t) = si.term_off {
                pos = pos.max(t);
            }
        }
    }
    pos
}

pub struct Checked {
    pub served: usize,
    pub replies_seen: usize,
    pub out_records: usize,
}

/// The connection-level oracle. `expect_served`: how many requests must have been handled.
/// `io_ok`: no transport fault was injected (everything must be complete).
pub fn check_conn(case: &ConnCase, model: &[ReqModel], out: &[u8], invs: &[Invocation], expect_served: usize, l: &mut crate::ev::Local) -> Result<Checked, (String, String)> {
    check_conn_ext(case, model, out, invs, expect_served, l, &[])
}

/// `allowed_errors`: error kinds a handler may legitimately have seen (fault-injection runs).
pub fn check_conn_ext(case: &ConnCase, model: &[ReqModel], out: &[u8], invs: &[Invocation], expect_served: usize, l: &mut crate::ev::Local, allowed_errors: &[std::io::ErrorKind]) -> Result<Checked, (String, String)> {
    let (recs, tail) = spec::decode_output(out).map_err(|m| ("output-malformed".to_string(), m))?;
    if tail != out.len() {
        return Err(("output-partial-record".into(), format!("the output ends with {} bytes of an incomplete record", out.len() - tail)));
    }
    // ---- handler invocations ------------------------------------------------------------------
    // requests aborted during Params are answered by the parser and never reach a handler
    let handled: Vec<usize> = (0..expect_served.min(model.len())).filter(|&i| model[i].kind != ReqKind::AbortedInParams).collect();
    if invs.len() != handled.len() {
        return Err((
            if invs.len() > handled.len() { "extra-handler-invocation" } else { "missing-handler-invocation" }.into(),
            format!(
                "{} handler invocation(s), expected {} (keep-conn flags {:?}, request kinds {:?})",
                invs.len(),
                handled.len(),
                case.reqs.iter().map(|r| r.preamble.flags & 1).collect::<Vec<_>>(),
                model.iter().map(|m| m.kind).collect::<Vec<_>>()
            ),
        ));
    }
    for (k, inv) in invs.iter().enumerate() {
        let i = handled[k];
        let m = &model[i];
        let v = inv.view.as_ref().expect("view");
        if v.role != m.info.role || v.flags != m.info.flags {
            return Err(("handler-sees-wrong-request".into(), format!("request {i}: handler saw role {} flags {:#x}, sent role {} flags {:#x}", v.role, v.flags, m.info.role, m.info.flags)));
        }
        if v.env != m.info.env || v.env_len != m.info.env.len() {
            return Err(("handler-sees-wrong-environment".into(), format!("request {i}: handler saw {} variables, the model has {}", v.env.len(), m.info.env.len())));
        }
        if !inv.finished {
            return Err(("handler-not-finished".into(), format!("request {i}: handler future never completed")));
        }
        for si in &m.streams.streams {
            let got = reads_of(inv, si.rtype);
            if !si.content.starts_with(&got) {
                let bad = got.iter().zip(&si.content).take_while(|(a, b)| a == b).count();
                return Err(("handler-read-wrong-bytes".into(), format!("request {i} stream {}: bytes read are not a prefix of the stream (first difference at {bad}, read {}, stream has {})", si.rtype, got.len(), si.content.len())));
            }
            if inv.eofs.contains(&si.rtype) && si.term_off.is_none() {
                return Err(("eof-instead-of-abort".into(), format!("request {i} stream {}: the handler saw end-of-file although the stream was aborted before its end", si.rtype)));
            }
            if inv.eofs.contains(&si.rtype) && got.len() != si.content.len() {
                return Err(("handler-premature-eof".into(), format!("request {i} stream {}: end-of-file after {} of {} bytes", si.rtype, got.len(), si.content.len())));
            }
            let script = &case.scripts[i.min(case.scripts.len() - 1)];
            if m.kind == ReqKind::Normal && script.ops.contains(&Op::ReadToEnd) && inv.errors.is_empty() && script_reads_stream_fully(script, si.rtype, &m.info) && got != si.content {
                return Err(("handler-short-read".into(), format!("request {i} stream {}: read-to-end returned {} of {} bytes", si.rtype, got.len(), si.content.len())));
            }
        }
        for (s, b) in &inv.reads {
            if !m.streams.streams.iter().any(|si| si.rtype == *s) {
                return Err(("handler-read-without-stream".into(), format!("request {i}: {} bytes read while the active stream was {s}", b.len())));
            }
        }
        for (what, kind) in &inv.errors {
            let aborted = matches!(m.kind, ReqKind::AbortedLater(_));
            if !(aborted && *kind == std::io::ErrorKind::ConnectionAborted) && !allowed_errors.contains(kind) {
                return Err(("handler-unexpected-error".into(), format!("request {i}: handler operation {what} failed with {kind:?} ({})", if aborted { "only ConnectionAborted is expected after a client abort" } else { "no error is expected" })));
            }
        }
        if !inv.wrappers_ok {
            return Err(("request-lookup-wrappers".into(), format!("request {i}: Request::contains_var / get_var / get_var_str disagree with env_iter")));
        }
        if !inv.zero_len_reads_ok {
            return Err(("zero-length-read-consumed".into(), format!("request {i}: a read into an empty buffer returned non-zero")));
        }
        l.count("handler_invocations_checked");
    }
    // ---- output grammar -----------------------------------------------------------------------
    let mut ri = 0usize; // record cursor
    let mut mgmt: Vec<(usize, OutRec)> = Vec::new(); // (position in recs, record)
    let mut first_end_record_pos: Vec<usize> = Vec::new();
    // EndRequest records the parser itself owes for requests aborted during Params, in order
    let mut parser_ends: std::collections::VecDeque<(usize, u16)> =
        (0..expect_served.min(model.len())).filter(|&i| model[i].kind == ReqKind::AbortedInParams).map(|i| (i, model[i].info.id)).collect();
    for (k, inv) in invs.iter().enumerate() {
        let i = handled[k];
        let m = &model[i];
        let id = m.info.id;
        let mut want_out = Vec::new();
        let mut want_err = Vec::new();
        for (s, b) in &inv.writes {
            if *s == wire::STDOUT {
                want_out.extend_from_slice(b);
            } else {
                want_err.extend_from_slice(b);
            }
        }
        let (mut got_out, mut got_err) = (Vec::new(), Vec::new());
        let (mut end_out, mut end_err) = (0usize, 0usize);
        let mut first_end: Option<usize> = None;
        let mut ended = false;
        while ri < recs.len() {
            let r = &recs[ri];
            let pos = ri;
            ri += 1;
            match r {
                OutRec::Stream { rtype, id: rid, data, pad } => {
                    if *rid != id {
                        return Err(("output-wrong-request-id".into(), format!("request {i}: stream record with id {rid}, expected {id}")));
                    }
                    if *pad >= 8 || (data.len() + usize::from(*pad)) % 8 != 0 {
                        return Err(("output-padding".into(), format!("request {i}: stream record with {} content bytes and {pad} padding bytes", data.len())));
                    }
                    let (got, ends) = if *rtype == wire::STDOUT { (&mut got_out, &mut end_out) } else { (&mut got_err, &mut end_err) };
                    if data.is_empty() {
                        *ends += 1;
                        first_end.get_or_insert(pos);
                    } else {
                        if *ends > 0 {
                            return Err(("data-after-stream-end".into(), format!("request {i}: {} record with data after the stream's end record", wire::type_name(*rtype))));
                        }
                        got.extend_from_slice(data);
                    }
                }
                OutRec::End { id: rid, status, .. } if parser_ends.front().map_or(false, |(j, pid)| *j < i && pid == rid) && *status == wire::ST_COMPLETE => {
                    parser_ends.pop_front();
                    mgmt.push((pos, r.clone()));
                }
                OutRec::End { id: rid, app, status, .. } if *rid == id && !is_parser_end(*status) => {
                    first_end.get_or_insert(pos);
                    let script = &case.scripts[i.min(case.scripts.len() - 1)];
                    let want = expected_exit(script, inv);
                    let (ws, wa) = status_fields(want);
                    if *status != ws || *app != wa {
                        return Err(("endrequest-wrong-status".into(), format!("request {i}: EndRequest protocol status {status} app status {app:#x}, handler returned {want:?}")));
                    }
                    ended = true;
                    break;
                }
                other => mgmt.push((pos, other.clone())),
            }
        }
        if !ended {
            return Err(("endrequest-missing".into(), format!("request {i} (id {id}): no EndRequest in the output")));
        }
        if got_out != want_out || got_err != want_err {
            return Err((
                "handler-output-mismatch".into(),
                format!("request {i}: stdout {} bytes (handler wrote {}), stderr {} bytes (handler wrote {})", got_out.len(), want_out.len(), got_err.len(), want_err.len()),
            ));
        }
        let aborted_later = matches!(m.kind, ReqKind::AbortedLater(_));
        if !((end_out == 1 && end_err == 1) || (aborted_later && end_out == 0 && end_err == 0)) {
            return Err(("stream-end-records".into(), format!("request {i}: {end_out} empty Stdout and {end_err} empty Stderr record(s) before EndRequest, expected one each")));
        }
        first_end_record_pos.push(first_end.unwrap_or(ri));
        l.count("responses_checked");
    }
    // everything after the last EndRequest must be management replies
    while ri < recs.len() {
        match &recs[ri] {
            OutRec::Stream { .. } => return Err(("output-after-endrequest".into(), "stream record after the last EndRequest".into())),
            OutRec::End { id, status, .. } if parser_ends.front().map_or(false, |(_, pid)| pid == id) && *status == wire::ST_COMPLETE => {
                parser_ends.pop_front();
                mgmt.push((ri, recs[ri].clone()));
            }
            OutRec::End { id, status, .. } if !is_parser_end(*status) => {
                return Err(("duplicate-endrequest".into(), format!("a further EndRequest (id {id}, status {status}) after the last handled request")));
            }
            other => mgmt.push((ri, other.clone())),
        }
        ri += 1;
    }
    // ---- management replies: in arrival order, each once, nothing else ----------------------------
    let all_replies: Vec<ModelReply> = model.iter().flat_map(|m| m.replies.iter().cloned()).collect();
    let got: Vec<OutRec> = mgmt.iter().map(|(_, r)| r.clone()).collect();
    let conns = case.conns.to_string();
    let matched = prefix_match(&all_replies, &got, &conns).map_err(|m| ("management-replies".to_string(), m))?;
    // ---- replies that were certainly pending at close time precede the end records ------------------
    for (k, inv) in invs.iter().enumerate() {
        let i = handled[k];
        let m = &model[i];
        let upto = provably_read_past(inv, m);
        // index (in all_replies) of the last non-optional reply whose record ends at or before `upto`
        let base: usize = model[..i].iter().map(|x| x.replies.len()).sum();
        let mut must = 0usize; // number of replies (from the start of the connection) that must precede
        for (k, r) in m.replies.iter().enumerate() {
            if r.src_end <= upto && !matches!(r.reply, spec::Reply::Values { empty_body: true, .. }) {
                must = base + k + 1;
            }
        }
        if must > 0 {
            // count how many model replies are matched by management records located before the first end record
            let before = mgmt.iter().filter(|(p, _)| *p < first_end_record_pos[k]).count();
            let before_recs: Vec<OutRec> = mgmt.iter().take(before).map(|(_, r)| r.clone()).collect();
            let matched_before = prefix_match(&all_replies, &before_recs, &conns).unwrap_or(0);
            if matched_before < must {
                return Err((
                    "epilogue-before-pending-reply".into(),
                    format!(
                        "request {i}: the handler had read past wire offset {upto}, so the reply to the record ending at {} was pending when the request was closed, but the end records were written first",
                        all_replies[must - 1].src_end
                    ),
                ));
            }
            l.count("pending_replies_verified_before_epilogue");
        }
    }
    Ok(Checked { served: invs.len(), replies_seen: matched, out_records: recs.len() })
}

fn is_parser_end(status: u8) -> bool {
    status == wire::ST_CANT_MPX
}

fn script_reads_stream_fully(script: &Script, _t: u8, info: &ReqInfo) -> bool {
    // only single-stream roles with an unconditional ReadToEnd as first read op
    wire::role_input_streams(info.role).len() == 1 && script.ops.first() == Some(&Op::ReadToEnd)
}

/// The exit status the handler returned (a handler that swallowed an error still returns its own).
pub fn expected_exit(script: &Script, inv: &Invocation) -> ExitStatus {
    match inv.returned {
        Some(Ok(s)) => s,
        // a handler that propagates the connection-aborted error gets the distinguished abort status
        Some(Err(std::io::ErrorKind::ConnectionAborted)) => ExitStatus::ABORT,
        _ => script.status,
    }
}

/// `got` must match a prefix of `want` (optional replies may be absent). Returns the number of
/// `want` entries accounted for.
pub fn prefix_match(want: &[ModelReply], got: &[OutRec], conns: &str) -> Result<usize, String> {
    // breadth-first over (want idx, got idx); optional replies may or may not have produced a record
    let mut reach: Vec<(usize, usize)> = vec![(0, 0)];
    let mut best_err = String::new();
    let mut done: Option<usize> = None;
    while !reach.is_empty() {
        let mut next: Vec<(usize, usize)> = Vec::new();
        for &(wi, gi) in &reach {
            if gi == got.len() {
                done = Some(done.map_or(wi, |d: usize| d.max(wi)));
                continue;
            }
            let Some(w) = want.get(wi) else {
                best_err = format!("unexpected extra management record #{gi}: {:?} (all {} owed replies already seen)", got[gi], want.len());
                continue;
            };
            let optional = matches!(&w.reply, spec::Reply::Values { empty_body: true, .. });
            if optional && !next.contains(&(wi + 1, gi)) {
                next.push((wi + 1, gi));
            }
            match spec::reply_matches(&w.reply, &got[gi], conns) {
                Ok(()) => {
                    if !next.contains(&(wi + 1, gi + 1)) {
                        next.push((wi + 1, gi + 1));
                    }
                }
                Err(e) => best_err = format!("management record #{gi} does not answer the next owed reply (for the record at wire offset {}): {e}", w.src_off),
            }
        }
        reach = next;
    }
    done.ok_or(best_err)
}

pub fn expect_served(case: &ConnCase) -> usize {
    let mut n = 0;
    for r in &case.reqs {
        n += 1;
        if r.preamble.flags & 1 == 0 {
            break;
        }
    }
    n
}

pub fn report(c: &mut Case, case: &ConnCase, w: &World, sig: &str, msg: String) {
    let out = w.pipe.lock().unwrap_or_else(std::sync::PoisonError::into_inner).outbox.clone();
    c.violation(
        sig,
        Json::obj()
            .with("connection", case.desc.clone())
            .with("problem", msg)
            .with("wire_hex", hex_cap(&case.wire, 30000))
            .with("output_hex", hex_cap(&out, 6000))
            .with("steps", w.steps)
            .with("handler_log", w.log.lock().unwrap().invocations.iter().map(|i| format!("finished={} returned={:?} errors={:?} reads={} eofs={:?} writes={}", i.finished, i.returned, i.errors, i.reads.iter().map(|r| r.1.len()).sum::<usize>(), i.eofs, i.writes.len())).collect::<Vec<_>>())
            .with("last_actions", conn::trace_tail(w, 60)),
    );
}

pub fn run_one(c: &mut Case, opts: &GenOpts) {
    let case = conn::gen_conn(&mut c.rng, opts);
    run_case(c, case);
}

/// Runs one scripted connection through `Token::run` and judges it with the full oracle.
pub fn run_case(c: &mut Case, case: ConnCase) {
    let model = match conn_model(&case) {
        Ok(m) => m,
        Err(e) => {
            c.violation("harness-model", Json::obj().with("problem", e).with("connection", case.desc.clone()));
            return;
        }
    };
    let rng = crate::rng::Rng::new(c.rng.next_u64());
    let (mut w, _runner) = conn::build_world(&case, rng);
    let end = w.run(400_000, |_, _| {});
    let (out, pend_r, pend_w, cuts) = {
        let p = w.pipe.lock().unwrap_or_else(std::sync::PoisonError::into_inner);
        (p.outbox.clone(), p.pending_reads, p.pending_writes, (p.cut_in_header, p.cut_at_seam, p.cut_in_payload, p.cut_in_padding))
    };
    c.l.add("executor_steps", w.steps);
    c.l.add("pending_reads_injected_or_waited", pend_r);
    c.l.add("pending_writes_injected", pend_w);
    c.l.add("vectored_write_cut_in_header", cuts.0);
    c.l.add("vectored_write_cut_at_seam", cuts.1);
    c.l.add("vectored_write_cut_in_payload", cuts.2);
    c.l.add("vectored_write_cut_in_padding", cuts.3);
    c.l.state(w.hist);
    match end {
        End::Budget => {
            c.l.count("step_budget_exhausted");
            return;
        }
        End::Quiescent => {
            let out_s = conn::summarize(&out, &w.peer.request_ids);
            report(
                c,
                &case,
                &w,
                "connection-stalled",
                format!(
                    "no runnable task and no enabled environment action, but Token::run has not returned: peer sent {}/{} bytes, {} EndRequest(s) seen, peer blocked on {:?}",
                    w.peer.sent,
                    w.peer.wire.len(),
                    out_s.ended,
                    w.peer.blocked_on(&out_s)
                ),
            );
            return;
        }
        End::Finished => {}
    }
    let invs = w.log.lock().unwrap().invocations.clone();
    let served = expect_served(&case);
    match check_conn(&case, &model, &out, &invs, served, c.l) {
        Ok(ch) => {
            c.l.count("connections_checked");
            c.l.add("requests_served", ch.served as u64);
            c.l.add("reads_abandoned_while_pending", invs.iter().map(|i| u64::from(i.abandoned_reads)).sum());
            c.l.add("echo_handler_copy_steps", invs.iter().map(|i| u64::from(i.echo_polls)).sum());
            c.l.add("management_replies_matched", ch.replies_seen as u64);
            if served < case.reqs.len() {
                c.l.count("connections_closed_without_keep_conn");
            }
            if served > 1 {
                c.l.count("connections_reused");
            }
            let unread = invs.iter().zip(&model).any(|(inv, m)| m.streams.streams.iter().any(|s| reads_of(inv, s.rtype).len() < s.content.len()));
            if unread && served > 1 {
                c.l.count("reused_after_unread_input");
            }
            let mut h = case.beh.class();
            for s in &case.scripts {
                h = mix(h, crate::handler::script_class(s));
            }
            c.l.sig(mix(h, case.reqs.len() as u64));
        }
        Err((sig, msg)) => report(c, &case, &w, &sig, msg),
    }
    if c.index < 2 {
        c.l.sample(case.desc.clone());
    }
}

pub fn run(ctx: &Ctx, evidence: Option<&PathBuf>) -> i32 {
    let opts = GenOpts { max_requests: 5, extra_pct: 20, big: ctx.scale == Scale::Full, keep_conn_pct: 75, no_begin_extras: false };
    ctx.run_fixed("directed", ctx.dn(300), |c| run_one(c, &opts));
    let n = ctx.size3(15_000, 1_500_000, 5);
    ctx.run_cases("connections", n, |c| run_one(c, &opts));
    ctx.gate("connections_checked", 200);
    ctx.gate("connections_reused", 50);
    ctx.gate("connections_closed_without_keep_conn", 20);
    ctx.gate("reused_after_unread_input", 20);
    ctx.gate("pending_writes_injected", 50);
    ctx.gate("vectored_write_cut_in_header", 20);
    ctx.gate("pending_replies_verified_before_epilogue", 20);
    ctx.gate("reads_abandoned_while_pending", 20);
    ctx.gate("echo_handler_copy_steps", 200);
    ctx.finish(
        "exploration",
        "connections of 1..5 requests (all roles, every flag byte, bodies empty..multi-record, management / unknown / stray records) through Token::run on a deterministic waker-driven executor; \
         open-loop peer releasing request i+1 only after EndRequest i, in pieces of 1..n bytes; handler scripts drawn from {read to end / n reads of 0..1000 bytes / fill_buf+consume (also beyond the buffer) / nothing / copy_buf-style echo to an output stream (reader polled first on every poll, also while the handler's own write or flush is pending), set_stream / writeable() between streams, \
         0..6 writes of {0,1,7,8,9,100,1000,65535,65536,70000} bytes to stdout/stderr, flushes, every ExitStatus variant}; transport reads return 1..n bytes or Pending, writes accept 1..n bytes (vectored: cuts inside header / at seams / inside padding) or Pending, flush Pending. \
         Oracle over the decoded transport log + handler log: per request exactly one invocation with the model's environment, bytes read are a prefix of E(s) (all of it when read to end); output = handler payloads per stream in order, one empty Stdout + one empty Stderr, one EndRequest(id, documented status mapping); \
         management replies match a prefix of the model's reply list in arrival order, each once; replies provably pending at close time (handler read past the query) precede the end records; invocation i+1 happens iff request i had keep-conn; quiescence with Token::run unfinished = stalled. \
         distinct_nontrivial = distinct (handler script classes, transport behaviour class, #requests) (set); distinct_states_observed = distinct executor interleavings (history hashes).",
        &["executor/transport mocks", "reference model spec.rs", "liveness restated as bounded progress: step budget exhausted is counted, not judged"],
        false,
        evidence,
    )
}
