//! C01 — request preamble decoding is exact under any record segmentation and chunking.
//! (Also hosts the shared preamble oracle used by C05/C06.)

use std::collections::BTreeSet;
use std::path::PathBuf;

use fastcgi_server::cgi::VarName;
use fastcgi_server::parser::{self, request};

use crate::c02::config;
use crate::ev::{guarded, panic_signature, Case, Ctx, Scale};
use crate::gen::{self, Cuts, Pair};
use crate::json::{hex_cap, Json};
use crate::rng::{mix, Rng};
use crate::spec::{self, PreOutcome, ReqInfo};
use crate::syncdrive::{self as sd, Chunking};
use crate::wire;

/// Compares a parsed request with the model's. Returns Err((signature, message)).
pub fn compare_request(req: &parser::Request, info: &ReqInfo, originals: &[Vec<u8>], l: &mut crate::ev::Local) -> Result<(), (String, String)> {
    let v = sd::view(req);
    if v.id != info.id {
        return Err(("wrong-request-id".into(), format!("request id {} expected {}", v.id, info.id)));
    }
    if v.role != info.role {
        return Err(("wrong-role".into(), format!("role {} expected {}", v.role, info.role)));
    }
    if v.flags != info.flags {
        return Err(("wrong-flags".into(), format!("flags {:#04x} expected {:#04x}", v.flags, info.flags)));
    }
    {
        let it = req.env_iter();
        let (lo, hi) = it.size_hint();
        if it.len() != req.env_len() || lo > req.env_len() || hi.map_or(false, |h| h < req.env_len()) || it.clone().count() != req.env_len() {
            return Err(("env-iter-len".into(), format!("env_iter().len() = {}, size_hint = ({lo}, {hi:?}), env_len() = {}", it.len(), req.env_len())));
        }
    }
    if v.env_len != info.env.len() || v.env.len() != info.env.len() {
        return Err(("env-size".into(), format!("env_len() = {}, env_iter yields {} keys, model has {} variables", v.env_len, v.env.len(), info.env.len())));
    }
    for (k, val) in &info.env {
        match v.env.get(k) {
            None => {
                // tolerated difference: number of U+FFFD characters per run of invalid bytes
                let squash = |s: &str| {
                    let mut o = String::new();
                    for ch in s.chars() {
                        if ch == '\u{fffd}' && o.ends_with('\u{fffd}') {
                            continue;
                        }
                        o.push(ch);
                    }
                    o
                };
                if v.env.keys().any(|g| squash(g) == squash(k)) && !v.env.contains_key(k) {
                    l.count("tolerated_replacement_char_run_length");
                    continue;
                }
                return Err(("env-missing-variable".into(), format!("variable {k:?} missing from the environment (keys: {:?})", v.env.keys().take(8).collect::<Vec<_>>())));
            }
            Some(g) if g != val => {
                return Err((
                    "env-wrong-value".into(),
                    format!("variable {k:?}: value {} ({} bytes), expected {} ({} bytes)", hex_cap(g, 24), g.len(), hex_cap(val, 24), val.len()),
                ))
            }
            Some(_) => {}
        }
        // lookups through any spelling
        let lower = k.to_ascii_lowercase();
        for name in [k.as_str(), lower.as_str()] {
            if req.get_var(VarName::new(name)) != Some(&val[..]) || !req.contains_var(VarName::new(name)) {
                if v.env.contains_key(k) {
                    return Err(("lookup-miss".into(), format!("get_var/contains_var({name:?}) does not find the variable stored as {k:?}")));
                }
            }
        }
        if v.env.contains_key(k) && req.get_var_str(VarName::new(k)) != std::str::from_utf8(val).ok() {
            return Err(("get-var-str".into(), format!("get_var_str({k:?}) disagrees with the UTF-8 decoding of the stored value")));
        }
        l.count("lookups_by_spelling");
    }
    for o in originals {
        let s = String::from_utf8_lossy(o);
        let key = spec::env_key(o);
        if let Some(val) = info.env.get(&key) {
            if v.env.contains_key(&key) && req.get_var(VarName::new(&s)) != Some(&val[..]) {
                return Err(("lookup-miss".into(), format!("get_var({s:?}) (original spelling) does not find {key:?}")));
            }
        }
    }
    if req.get_var(VarName::new("X_NOT_PRESENT_\u{1}")).is_some() || req.contains_var(VarName::new("")) != info.env.contains_key("") {
        return Err(("lookup-phantom".into(), "lookup of an absent name succeeded".into()));
    }
    Ok(())
}

pub struct Pre {
    pub bytes: Vec<u8>,
    pub buffer: usize,
    pub pairs: Vec<Pair>,
    pub desc: Json,
    pub cut_classes: BTreeSet<&'static str>,
    pub sig: u64,
}

/// Which structural part of which pair each record cut falls into.
pub fn classify_cuts(pairs: &[Pair], cuts: &[usize]) -> BTreeSet<&'static str> {
    let mut set = BTreeSet::new();
    let mut spans: Vec<(usize, usize)> = Vec::new(); // (start,end) of each pair in the payload
    let mut off = 0;
    for p in pairs {
        let nl = if p.name.len() >= 128 || p.f4n { 4 } else { 1 };
        let vl = if p.value.len() >= 128 || p.f4v { 4 } else { 1 };
        let end = off + nl + vl + p.size();
        spans.push((off, end));
        for &c in cuts {
            if c <= off || c >= end {
                if c == off && off > 0 {
                    set.insert("cut_at_pair_boundary");
                }
                continue;
            }
            let d = c - off;
            if d < nl {
                set.insert(if nl == 4 { "cut_in_name_len_4B" } else { "cut_in_name_len_1B" });
            } else if d == nl {
                set.insert("cut_between_len_prefixes");
            } else if d < nl + vl {
                set.insert(if vl == 4 { "cut_in_val_len_4B" } else { "cut_in_val_len_1B" });
            } else if d == nl + vl {
                set.insert("cut_after_len_header");
            } else if d < nl + vl + p.name.len() {
                set.insert("cut_in_name");
            } else if d == nl + vl + p.name.len() {
                set.insert("cut_between_name_and_value");
            } else {
                set.insert("cut_in_value");
            }
        }
        let inside = cuts.iter().filter(|&&c| c > off && c < end).count();
        if inside >= 2 {
            set.insert("pair_spans_3plus_records");
        }
        off = end;
    }
    set
}

pub fn gen_pre(rng: &mut Rng, big: bool) -> Pre {
    let id = gen::gen_request_id(rng);
    let role = 1 + rng.below(3) as u16;
    let flags = rng.u8();
    let max_pairs = if rng.chance(1, 8) { 40 } else { 8 };
    let pairs = gen::gen_pairs(rng, max_pairs, 1 << 20, big);
    let longest = pairs.iter().map(Pair::size).max().unwrap_or(0);
    let big_skip = big && rng.chance(1, 3);
    let buffer = match rng.below(5) {
        _ if big_skip => 66_000 + rng.below(140_000).max(longest + 13),
        0 | 1 => longest + 13,
        2 => longest + 13 + rng.below(20),
        3 => 8192.max(longest + 13),
        _ => longest + 13 + rng.below(3000),
    };
    let max_pair_gv = buffer.max(24) - 13;
    let mut payload = Vec::new();
    for p in &pairs {
        p.encode(&mut payload);
    }
    let cuts = gen::gen_cuts(rng, &payload, &pairs);
    let cut_list: Vec<usize> = match &cuts {
        Cuts::None => vec![],
        Cuts::At(v) => v.clone(),
        Cuts::EveryByte => (1..payload.len()).collect(),
    };
    let cut_classes = classify_cuts(&pairs, &cut_list);
    let mut bytes = Vec::new();
    let extra_pct = if big_skip { 50 } else { *rng.pick(&[0usize, 0, 15, 40]) };
    let extras: &[gen::Extra] = if big_skip { &gen::EXTRAS_BIG } else { &gen::EXTRAS_PREAMBLE };
    let pre = gen::push_preamble(rng, &mut bytes, id, role, flags, &pairs, &cuts, extra_pct, extras, max_pair_gv);
    let end = bytes.len();
    // opaque trailing data: never interpreted by the request parser
    let trailing = rng.rbytes(300);
    bytes.extend_from_slice(&trailing);
    let mut sig = mix(u64::from(role), buffer as u64);
    for p in &pairs {
        sig = mix(sig, ((p.name.len() as u64) << 24) ^ p.value.len() as u64 ^ (u64::from(p.f4n) << 60) ^ (u64::from(p.f4v) << 61));
    }
    sig = mix(sig, cut_list.len() as u64 ^ (pre.n_extras as u64) << 32);
    let desc = Json::obj()
        .with("request_id", id)
        .with("role", role)
        .with("flags", flags)
        .with("buffer_size", buffer)
        .with("pair_lengths", pairs.iter().take(12).map(|p| format!("{}{}/{}{}", p.name.len(), if p.f4n { "*" } else { "" }, p.value.len(), if p.f4v { "*" } else { "" })).collect::<Vec<_>>())
        .with("params_records", pre.n_param_records)
        .with("cuts", pre.cut_desc.clone())
        .with("interleaved_records", pre.n_extras)
        .with("preamble_len", end)
        .with("trailing_bytes", trailing.len());
    Pre { bytes, buffer, pairs, desc, cut_classes, sig }
}

/// Runs one preamble through the request parser with the given chunking and checks everything.
pub fn check_pre(c: &mut Case, pre: &Pre, conns: usize, chunk: &mut Chunking) -> bool {
    let cfg = config(pre.buffer, conns);
    let model = spec::model_preamble(&pre.bytes, 0);
    let PreOutcome::Done(info) = &model.outcome else {
        c.violation("harness-model-not-done", Json::obj().with("case", pre.desc.clone()).with("model", format!("{:?}", model.outcome)));
        return false;
    };
    let fail = |c: &mut Case, sig: &str, msg: String, chunk: &Chunking| {
        c.violation(
            sig,
            Json::obj().with("case", pre.desc.clone()).with("chunking", chunk.family()).with("problem", msg).with("input_hex", hex_cap(&pre.bytes, 20000)),
        );
        false
    };
    let mut run = sd::drive_request(request::Parser::new(&cfg), &pre.bytes, 0, pre.bytes.len(), chunk, &mut c.rng, false);
    let fed_at_done = run.fed;
    if run.done && c.rng.chance(1, 3) {
        // a driver that keeps draining the socket after `done`: the bytes join the leftover
        match sd::feed_after_done(&mut run, &pre.bytes, pre.bytes.len(), &mut c.rng, 3) {
            Ok(n) if n > 0 => c.l.count("fed_after_done"),
            Ok(_) => {}
            Err(m) => return fail(c, "call-after-done-changes-state", m, chunk),
        }
    }
    c.l.add("parse_calls", run.calls);
    c.l.add("exact_buffer_fills", run.exact_fills);
    if let Some((s, m)) = run.problems.first() {
        return fail(c, s, m.clone(), chunk);
    }
    if !run.done {
        return fail(c, "not-done-after-full-preamble", format!("all {} bytes fed, parser still not done", run.fed), chunk);
    }
    // done exactly when the fed bytes reach the end of the final Params record's padding
    // (an early `done` caused by a fatal error is reported as that error)
    let early_or_late = if run.fed_before_done >= info.end_off {
        Some(("done-late", format!("preamble ends at {}, {} bytes had been fed before the call that reported done", info.end_off, run.fed_before_done)))
    } else if fed_at_done < info.end_off {
        Some(("done-early", format!("done reported after {fed_at_done} bytes, preamble ends at {}", info.end_off)))
    } else {
        None
    };
    let parser = run.parser.expect("parser");
    let probe = parser.clone();
    let (req, leftover) = match guarded(|| parser.into_request()) {
        Ok(Ok(x)) => x,
        Ok(Err(e)) => return fail(c, &format!("preamble-error-{}", sd::err_kind(&e).split('(').next().unwrap_or("")), format!("into_request() failed: {}", sd::err_kind(&e)), chunk),
        Err(p) => return fail(c, &panic_signature(&p), format!("into_request panicked: {p}"), chunk),
    };
    if let Some((s, m)) = early_or_late {
        return fail(c, s, m, chunk);
    }
    let originals: Vec<Vec<u8>> = pre.pairs.iter().map(|p| p.name.clone()).collect();
    if let Err((s, m)) = compare_request(&req, info, &originals, c.l) {
        return fail(c, &s, m, chunk);
    }
    if leftover[..] != pre.bytes[info.end_off..run.fed] {
        return fail(
            c,
            "leftover-not-suffix",
            format!("leftover has {} bytes: {}, expected bytes {}..{} of the input", leftover.len(), hex_cap(&leftover, 32), info.end_off, run.fed),
            chunk,
        );
    }
    // the same through the stream-parser conversion (clone): request equal
    match guarded(|| probe.into_stream_parser()) {
        Ok(Ok(sp)) => {
            if sp.request != req {
                return fail(c, "stream-parser-request-differs", "into_stream_parser().request != into_request().0".into(), chunk);
            }
        }
        Ok(Err(e)) => return fail(c, "into-stream-parser-error", sd::err_kind(&e), chunk),
        Err(p) => return fail(c, &panic_signature(&p), format!("into_stream_parser panicked: {p}"), chunk),
    }
    // replies produced while parsing the preamble
    match spec::decode_output(&run.out) {
        Ok((recs, tail)) if tail == run.out.len() => {
            if let Err(m) = spec::replies_match(&model.replies, &recs, &conns.to_string()) {
                return fail(c, "preamble-replies", m, chunk);
            }
            c.l.add("replies_checked", recs.len() as u64);
        }
        Ok(_) => return fail(c, "output-partial-record", "output ends with an incomplete record".into(), chunk),
        Err(m) => return fail(c, "output-malformed", m, chunk),
    }
    c.l.count(&format!("chunking_{}", chunk.family()));
    true
}

pub fn run_case(c: &mut Case, big: bool, n_chunkings: usize) {
    let pre = gen_pre(&mut c.rng, big);
    let structural = sd::structural_offsets(&pre.bytes);
    let mut chunkings = sd::all_chunkings(&mut c.rng, &structural);
    c.rng.shuffle(&mut chunkings);
    let conns = *c.rng.pick(&[1usize, 10, 99, 1 << 40]);
    for ch in chunkings.iter_mut().take(n_chunkings) {
        if pre.bytes.len() > 100_000 && matches!(ch, Chunking::OneByte) {
            continue; // one-byte reads of 70 KB pairs are covered by smaller cases
        }
        if !check_pre(c, &pre, conns, ch) {
            return;
        }
        c.l.evaluations += 1;
        c.l.sig(mix(pre.sig, crate::rng::hash_str(ch.family())));
    }
    for cl in &pre.cut_classes {
        c.l.count(cl);
    }
    if pre.pairs.iter().any(|p| std::str::from_utf8(&p.name).is_err()) {
        c.l.count("cases_with_non_utf8_names");
    }
    if pre.pairs.iter().any(|p| p.size() > 65535) {
        c.l.count("cases_with_pair_larger_than_a_record");
    }
    if pre.buffer == pre.pairs.iter().map(Pair::size).max().unwrap_or(0) + 13 {
        c.l.count("cases_at_documented_minimum_buffer");
    }
    if c.index < 3 {
        c.l.sample(pre.desc.clone());
    }
}

/// Exhaustive single-cut sweep: a payload of <= 400 bytes cut into two records at EVERY offset.
pub fn single_cut_sweep(c: &mut Case) {
    let pairs = {
        let mut v = gen::gen_pairs(&mut c.rng, 5, 200, false);
        // make sure both length encodings and an empty value occur
        v.push(Pair { name: b"QUERY_STRING".to_vec(), value: vec![], f4n: false, f4v: c.rng.chance(1, 2) });
        v.push(Pair { name: c.rng.bytes(130), value: c.rng.bytes(3), f4n: false, f4v: true });
        c.rng.shuffle(&mut v);
        v
    };
    let mut payload = Vec::new();
    for p in &pairs {
        p.encode(&mut payload);
    }
    if payload.len() > 600 || (c.ctx.miri() && payload.len() > 330) {
        return;
    }
    let id = gen::gen_request_id(&mut c.rng);
    let buffer = pairs.iter().map(Pair::size).max().unwrap_or(0) + 13;
    let fams = [Chunking::Fill, Chunking::OneByte, Chunking::Random(5), Chunking::Suite];
    for cut in 1..payload.len() {
        let mut bytes = Vec::new();
        let cuts = Cuts::At(vec![cut]);
        gen::push_preamble(&mut c.rng, &mut bytes, id, 1, 1, &pairs, &cuts, 0, &gen::EXTRAS_PREAMBLE, 11);
        let pre = Pre {
            bytes,
            buffer,
            pairs: pairs.clone(),
            desc: Json::obj().with("single_cut_at", cut).with("payload_len", payload.len()).with("buffer_size", buffer),
            cut_classes: BTreeSet::new(),
            sig: 0,
        };
        let mut ch = fams[cut % fams.len()].clone();
        if !check_pre(c, &pre, 1, &mut ch) {
            return;
        }
        c.l.evaluations += 1;
        c.l.count("single_cut_positions");
        for cl in classify_cuts(&pairs, &[cut]) {
            c.l.count(cl);
        }
    }
    c.l.sig(mix(0x51c, crate::rng::hash_bytes(1, &payload)));
}

pub fn run(ctx: &Ctx, evidence: Option<&PathBuf>) -> i32 {
    ctx.run_fixed("directed", ctx.dn(300), |c| run_case(c, c.index % 10 == 0, 3));
    ctx.run_fixed("single-cut-directed", if ctx.miri() { 0 } else { ctx.dn(20) }, single_cut_sweep);
    let n = ctx.size3(60_000, 6_000_000, 8);
    ctx.run_cases("preambles", n, |c| {
        let big = ctx.scale == Scale::Full && c.rng.chance(1, 25);
        run_case(c, big, 2);
    });
    ctx.run_cases("single-cut", ctx.size3(300, 30_000, 1), single_cut_sweep);
    for g in ["cut_in_name_len_4B", "cut_in_val_len_4B", "cut_in_name", "cut_in_value", "pair_spans_3plus_records", "cut_at_pair_boundary"] {
        ctx.gate(g, 10);
    }
    ctx.gate("single_cut_positions", 1000);
    ctx.gate("cases_with_non_utf8_names", 10);
    ctx.gate("replies_checked", 20);
    ctx.gate("lookups_by_spelling", 100);
    ctx.finish(
        "exploration",
        "generated preambles: request ids {1,255,256,65535,random}, roles 1..3, all flag bytes, 0..40 pairs with name/value lengths {0,1,2,3,8,17,40,60,126,127,128,129,255,256,300,1000,65528,65535,65536,70000}, \
         names from interned names in upper/lower/mixed case, ASCII, multi-byte UTF-8, invalid UTF-8, duplicates and case variants of earlier names, legal 4-byte encodings of short lengths; \
         Params payload cut into records: none / every byte / random / aimed inside length prefixes and around pair boundaries, plus an exhaustive single-cut sweep (every offset) of payloads <= 600 B; padding 0..255; \
         GetValues / unknown-type / foreign-id / duplicate+foreign BeginRequest / odd known-type records in any slot; buffer = longest pair + 13 (+0..20, 8192, random); 2-3 chunking families per case out of \
         {1-byte, fill, random, 50..256, surgical}. Oracle: id/role/flags, env_len, exact key set (upper-cased lossy decoding), values, get_var/contains_var through upper, lower and original spelling, \
         done reported exactly by the call that crosses the end of the final Params record's padding, leftover == exact suffix, decoded replies == model replies. \
         distinct_nontrivial = distinct (pair length vector + encodings, cut count, interleave count, buffer, role, chunking family) (set).",
        &["reference decoder spec.rs", "String::from_utf8_lossy models the lossy name decoding (difference only in U+FFFD run length is tolerated and counted)"],
        false,
        evidence,
    )
}
