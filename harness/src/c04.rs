//! C04 — each management or rejectable record gets exactly one correct reply, in order.

use std::path::PathBuf;

use crate::c02::{config, run_scenario, RunOpts, Scenario};
use crate::spec;
use crate::ev::{Case, Ctx, Scale};
use crate::gen::{self, Extra, ReqSpec};
use crate::json::Json;
use crate::rng::{mix, Rng};
use crate::syncdrive::{Chunking, Policy};
use crate::wire;

const CONNS: [usize; 9] = [1, 9, 10, 99, 100, 999, 1000, 1 << 32, usize::MAX];

/// A connection prefix in which 0..2 requests are aborted during Params, then one complete
/// request with reply-eliciting records in every slot.
fn gen_scenario(rng: &mut Rng, big_bodies: bool) -> Scenario {
    let buffer = *rng.pick(&[24usize, 32, 40, 64, 100, 256, 1000, 8192, 8192]);
    let eff = buffer.max(24);
    let max_pair = eff - 13;
    let conns = *rng.pick(&CONNS);
    let mut bytes = Vec::new();
    let n_aborted = if rng.chance(1, 3) { 1 + rng.below(2) } else { 0 };
    let mut header_slot = |rng: &mut Rng, bytes: &mut Vec<u8>| {
        while rng.chance(1, 3) {
            let k = *rng.pick(&[Extra::GetValues, Extra::GetValuesEmpty, Extra::UnknownType, Extra::ForeignBeginUnknownRole, Extra::ForeignStream, Extra::ForeignAbort, Extra::OddKnown, Extra::GetValuesNonNull]);
            gen::push_extra(rng, bytes, k, 0, 1, max_pair);
        }
    };
    for _ in 0..n_aborted {
        header_slot(rng, &mut bytes);
        let id = gen::gen_request_id(rng);
        let role = 1 + rng.below(3) as u16;
        wire::begin_request(&mut bytes, id, role, rng.u8(), gen::gen_padding(rng));
        for _ in 0..rng.below(4) {
            if rng.chance(1, 3) {
                let k = *rng.pick(&gen::EXTRAS_PRE_REPLIES);
                gen::push_extra(rng, &mut bytes, k, id, role, max_pair);
            }
            // arbitrary (even incomplete) Params payload of an aborted request
            let mut body = rng.rbytes(max_pair.min(60));
            if body.is_empty() {
                body.push(0x05); // an empty Params record would complete the preamble
            }
            wire::record(&mut bytes, wire::PARAMS, id, &body, gen::gen_padding(rng));
        }
        let abody = rng.rbytes(40);
        wire::record(&mut bytes, wire::ABORT, id, &abody, gen::gen_padding(rng));
    }
    let role = gen::gen_role(rng);
    let id = gen::gen_request_id(rng);
    let spec = ReqSpec {
        id,
        role,
        flags: rng.u8(),
        max_pairs: 5,
        max_pair,
        big_pairs: false,
        max_stream_records: 6,
        big_records: false,
        extra_pct_pre: *rng.pick(&[30usize, 60]),
        extra_pct_stream: *rng.pick(&[30usize, 60]),
        tag_base: 1,
        extras_pre: &gen::EXTRAS_PRE_REPLIES,
        extras_stream: &gen::EXTRAS_STREAM_REPLIES,
        marker: None,
    };
    let built = gen::push_request(rng, &mut bytes, &spec);
    if big_bodies {
        // a GetValues body larger than the buffer, made of small pairs, after the last terminator
        let mut body = Vec::new();
        while body.len() < eff * 3 {
            let name: &[u8] = if rng.chance(1, 2) { rng.pick(&wire::KNOWN_VARS).as_bytes() } else { b"X" };
            wire::nv_pair(&mut body, name, b"", false, false);
        }
        wire::record(&mut bytes, wire::GETVALUES, 0, &body, gen::gen_padding(rng));
    }
    let desc = Json::obj()
        .with("buffer_size", buffer)
        .with("max_conns", conns)
        .with("role", role)
        .with("request_id", id)
        .with("aborted_requests_before", n_aborted)
        .with("interleaved_in_preamble", built.preamble.n_extras)
        .with("wire_len", bytes.len());
    Scenario { bytes, buffer, conns, role, id, desc }
}

fn run(c: &mut Case, sc: &Scenario, opts: RunOpts) -> bool {
    run_scenario(c, sc, RunOpts { check_pre_replies: true, ..opts })
}

/// All 245 unknown type values, each before BeginRequest, between Params records and between
/// stream records, with bodies of 0..600 bytes.
fn unknown_types(c: &mut Case) {
    let t = c.index as u8;
    if wire::known_type(t) || (c.ctx.miri() && t % 41 != 0) {
        return;
    }
    let mut bytes = Vec::new();
    let id = 7;
    let mut unk = |rng: &mut Rng, bytes: &mut Vec<u8>| {
        let rid = *rng.pick(&[0u16, 7, 8, 65535]);
        let len = *rng.pick(&[0usize, 1, 7, 8, 9, 600]);
        let body = rng.bytes(len);
        wire::record(bytes, t, rid, &body, gen::gen_padding(rng));
    };
    unk(&mut c.rng, &mut bytes);
    wire::begin_request(&mut bytes, id, wire::RESPONDER, 1, 0);
    let mut payload = Vec::new();
    wire::nv_pair(&mut payload, b"A", b"b", false, false);
    wire::nv_pair(&mut payload, b"CC", b"dd", false, false);
    wire::record(&mut bytes, wire::PARAMS, id, &payload[..3], 1);
    unk(&mut c.rng, &mut bytes);
    wire::record(&mut bytes, wire::PARAMS, id, &payload[3..], 0);
    unk(&mut c.rng, &mut bytes);
    wire::record(&mut bytes, wire::PARAMS, id, &[], 3);
    wire::record(&mut bytes, wire::STDIN, id, &gen::tagged(1, 0, 20), 0);
    unk(&mut c.rng, &mut bytes);
    wire::record(&mut bytes, wire::STDIN, id, &gen::tagged(1, 20, 5), 4);
    wire::record(&mut bytes, wire::STDIN, id, &[], 0);
    unk(&mut c.rng, &mut bytes);
    unk(&mut c.rng, &mut bytes);
    let sc = Scenario { bytes, buffer: *c.rng.pick(&[24usize, 64, 8192]), conns: 3, role: 1, id, desc: Json::obj().with("unknown_type", t).with("positions", "before BeginRequest, between Params, after Params, between Stdin, after terminator x2") };
    if run(c, &sc, RunOpts::default()) {
        c.l.count("unknown_type_values");
        c.l.sig(0x0400 | u64::from(t));
    }
}

/// One scenario with every reply-eliciting record split across two reads at EVERY offset.
fn split_sweep(c: &mut Case) {
    let sc = gen_scenario(&mut c.rng, false);
    if sc.bytes.len() > 1500 || (c.ctx.miri() && sc.bytes.len() > 150) {
        return;
    }
    let pol = Policy { dest_pct: 50, dest_max: 64, consume_pct: 50, compress_pct: 30, consume_out_pct: 50 };
    for k in 1..sc.bytes.len() {
        let ch = Chunking::Surgical(vec![k], 0);
        let opts = RunOpts { chunk_pre: Some(ch.clone()), chunk_stream: Some(ch), policy: Some(pol.clone()), ..RunOpts::default() };
        if !run(c, &sc, opts) {
            return;
        }
        c.l.evaluations += 1;
        c.l.count("split_positions");
    }
}

/// Hundreds of replies queued at once while the caller takes them away in small pieces: the
/// unconsumed part of the output buffer must always be exactly the bytes not yet consumed, however
/// large the backlog gets and however it is drained (a parser that compacts its output buffer
/// beyond some size must not bring consumed bytes back or drop unconsumed ones).
fn reply_backlog(c: &mut Case) {
    use crate::syncdrive::SDriver;
    let id = gen::gen_request_id(&mut c.rng);
    let buffer = *c.rng.pick(&[64usize, 8192, 100_000]);
    let cfg = config(buffer, 3);
    let mut bytes = Vec::new();
    wire::begin_request(&mut bytes, id, wire::RESPONDER, 1, 0);
    wire::record(&mut bytes, wire::PARAMS, id, &[], 0);
    let pre = bytes.len();
    let n_records = if c.ctx.miri() { 12 + c.rng.below(12) } else { 200 + c.rng.below(600) };
    for i in 0..n_records {
        if c.rng.chance(1, 2) {
            let t = loop {
                let t = c.rng.u8();
                if !wire::known_type(t) {
                    break t;
                }
            };
            wire::record(&mut bytes, t, if c.rng.chance(1, 2) { 0 } else { id }, &[], 0);
        } else {
            let mut body = Vec::new();
            wire::nv_pair(&mut body, c.rng.pick(&wire::KNOWN_VARS).as_bytes(), b"", false, false);
            wire::record(&mut bytes, wire::GETVALUES, 0, &body, 0);
        }
        if i % 50 == 49 {
            wire::record(&mut bytes, wire::STDIN, id, &gen::tagged(1, i, 8), 0);
        }
    }
    wire::record(&mut bytes, wire::STDIN, id, &[], 0);
    let Some((sp, fed0)) = crate::c18::make_stream_parser(&cfg, &bytes[..pre], &mut c.rng) else {
        c.violation("harness-setup", Json::obj().with("problem", "cannot build the stream parser"));
        return;
    };
    let mut d = SDriver::new(sp, &bytes, fed0, bytes.len());
    let consume_pct = *c.rng.pick(&[5usize, 15, 40]);
    let mut max_backlog = 0usize;
    let mut steps = 0;
    while d.ok() && d.err.is_none() && steps < 200_000 {
        steps += 1;
        if !d.shadow_stream.is_empty() {
            let len = d.shadow_stream.len();
            d.consume_stream(len);
        }
        if !d.shadow_out.is_empty() && c.rng.below(100) < consume_pct {
            let len = d.shadow_out.len();
            let k = match c.rng.below(6) {
                0 => len,
                1 => 1,
                _ => c.rng.range(1, len.min(300)),
            };
            d.consume_output(k);
        }
        if c.rng.chance(1, 4) {
            d.compress();
        }
        let mut space = d.space();
        if space == 0 && d.remaining() > 0 {
            d.compress();
            space = d.space();
        }
        let n = space.min(d.remaining()).min(1 + c.rng.below(2000));
        let Some(st) = d.feed_parse(n, None) else { break };
        max_backlog = max_backlog.max(d.shadow_out.len());
        if d.remaining() == 0 && n == 0 && st.output == 0 && st.stream == 0 {
            break;
        }
    }
    // drain what is left, in pieces
    while d.ok() && !d.shadow_out.is_empty() {
        let len = d.shadow_out.len();
        let k = c.rng.range(1, len.min(500));
        d.consume_output(k);
    }
    c.l.evaluations += 1;
    c.l.max("largest_reply_backlog_bytes", max_backlog as u64);
    c.l.add("partial_output_consumes_in_backlog_runs", d.cnt.partial_output_consumes);
    if let Some((sig, msg)) = d.problems.first().cloned() {
        c.violation(format!("backlog:{sig}"), Json::obj().with("problem", msg).with("records", n_records).with("buffer_size", buffer).with("largest_backlog", max_backlog).with("last_actions", d.trace.iter().rev().take(12).rev().cloned().collect::<Vec<_>>()));
        return;
    }
    // every reply exactly once, in order
    let model = spec::model_streams(&bytes, pre, id, wire::RESPONDER);
    match spec::decode_output(&d.out_all) {
        Ok((recs, tail)) if tail == d.out_all.len() => {
            if let Err(m) = crate::c07::prefix_match(&model.replies, &recs, "3") {
                c.violation("backlog:replies", Json::obj().with("problem", m).with("records", n_records));
                return;
            }
            if recs.len() != model.replies.len() {
                c.violation("backlog:replies", Json::obj().with("problem", format!("{} replies in the output, the model owes {}", recs.len(), model.replies.len())));
                return;
            }
        }
        Ok(_) | Err(_) => {
            c.violation("backlog:output-malformed", Json::obj().with("problem", "the concatenated output is not a sequence of complete records"));
            return;
        }
    }
    if max_backlog > 4096 {
        c.l.count("runs_with_more_than_4_KiB_of_replies_pending");
    }
    c.l.sig(mix_sig(n_records as u64, buffer as u64));
}

fn mix_sig(a: u64, b: u64) -> u64 {
    crate::rng::mix(0x04b, crate::rng::mix(a, b))
}

pub fn run_all(ctx: &Ctx, evidence: Option<&PathBuf>) -> i32 {
    ctx.run_fixed("unknown-types", 256, unknown_types);
    ctx.run_fixed("directed", if ctx.miri() { 2 } else { ctx.dn(300) }, |c| {
        let sc = gen_scenario(&mut c.rng, c.index % 5 == 0);
        run(c, &sc, RunOpts::default());
        if c.index == 3 {
            c.l.sample(sc.desc.clone());
        }
    });
    ctx.run_fixed("split-sweep-directed", if ctx.miri() { 0 } else { ctx.dn(12) }, split_sweep);
    let n = ctx.size3(40_000, 4_000_000, 4);
    ctx.run_cases("replies", n, |c| {
        let big = ctx.scale == Scale::Full && c.rng.chance(1, 8);
        let sc = gen_scenario(&mut c.rng, big);
        let early = c.rng.chance(1, 5);
        if run(c, &sc, RunOpts { early, ..RunOpts::default() }) {
            c.l.count(&format!("conns_{}", sc.conns));
        }
        if c.index == 1 {
            c.l.sample(sc.desc.clone());
        }
    });
    ctx.run_cases("split-sweep", ctx.size3(60, 6_000, 6), split_sweep);
    ctx.run_cases("reply-backlog", ctx.size3(60, 6_000, 1), reply_backlog);
    if !ctx.miri() {
        ctx.gate("runs_with_more_than_4_KiB_of_replies_pending", 10);
    }
    ctx.gate("unknown_type_values", 245);
    ctx.gate("replies_checked", 1000);
    ctx.gate("split_positions", 2000);
    ctx.gate("partial_output_consumes", 50);
    ctx.finish(
        "exploration",
        "connections = 0..2 requests aborted during Params (abort body 0..40 B) + one complete request (all roles) with, in every slot before BeginRequest / between Params records / between stream records / after the terminator: \
         GetValues bodies mixing the three known names, unknown names, repeats, non-UTF-8 names, value-carrying names, incomplete trailing pairs, empty bodies, bodies larger than the buffer; unknown-type records; \
         BeginRequest for foreign ids incl. 0 with known and unknown roles; stray known-type records; padding 0..255; max_conns in {1,9,10,99,100,999,1000,2^32,usize::MAX}; buffers {24,32,40,64,100,256,1000,8192}. \
         Exhaustive: all 245 unknown type values at 6 positions each; every read-split offset of whole scenarios (both parsers). Stream phase under random schedules with consume_output(k) interleaving. \
         Oracle: decoded concatenated Yield.output and output_buffer() == model reply list in arrival order (type, id, protocol status, decoded variable set with values), nothing else; Status.output == observed growth; shadow compare of output_buffer across partial consume_output. \
         distinct_nontrivial = distinct scenario digests (set).",
        &["reference reply model with the tolerances of DESIGN.md §3.2 (empty GetValues body, echoed id on UnknownType, CantMpxConn/UnknownRole overlap, variable order)"],
        false,
        evidence,
    )
}
