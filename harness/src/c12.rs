//! C12 — transport EOF or error at any point ends the connection cleanly.
//! Fault enumeration: EOF at every byte offset, read error at every read call, write error and
//! zero-length write at every write call, each under several readiness patterns.

use std::io::ErrorKind;
use std::path::PathBuf;

use crate::c07::{check_conn_ext, conn_model, reads_of, report, ReqModel};
use crate::conn::{self, ConnCase, End, GenOpts, World};
use crate::ev::{Case, Ctx, Scale};
use crate::rng::{mix, Rng};
use crate::spec::{self, OutRec};
use crate::transport::{Behaviour, WriteFault};
use crate::wire;

#[derive(Clone, Copy, Debug)]
enum Fault {
    None,
    EofAt(usize),
    ReadErr(u64, ErrorKind),
    WriteErr(u64, ErrorKind),
    WriteZero(u64),
}

struct Outcome {
    read_calls: u64,
    write_calls: u64,
    ok: bool,
}

/// Byte offset in `out` just after the n-th EndRequest that answers a real request.
fn cut_after_ended(out: &[u8], ids: &[u16], n: usize) -> usize {
    if n == 0 {
        return 0;
    }
    let (recs, _) = wire::scan(out);
    let mut ended = 0;
    for r in &recs {
        if r.rtype == wire::END && ids.get(ended) == Some(&r.id) && r.len() >= 5 && out[r.content.start + 4] != wire::ST_CANT_MPX {
            ended += 1;
            if ended == n {
                return r.end;
            }
        }
    }
    out.len()
}

fn run_fault(c: &mut Case, case: &ConnCase, model: &[ReqModel], seed: u64, fault: Fault) -> Outcome {
    run_fault_ext(c, case, model, seed, fault, false)
}

/// `sticky`: the fault keeps firing on every later call of that direction (the transport stays broken).
fn run_fault_ext(c: &mut Case, case: &ConnCase, model: &[ReqModel], seed: u64, fault: Fault, sticky: bool) -> Outcome {
    let (mut w, _runner): (World, _) = conn::build_world(case, Rng::new(seed));
    {
        let mut p = w.pipe.lock().unwrap_or_else(std::sync::PoisonError::into_inner);
        p.fault_sticky = sticky;
        match fault {
            Fault::None => {}
            Fault::EofAt(o) => p.eof_at = Some(o),
            Fault::ReadErr(i, k) => p.read_fault = Some((i, k)),
            Fault::WriteErr(j, k) => p.write_fault = Some((j, WriteFault::Err(k))),
            Fault::WriteZero(j) => p.write_fault = Some((j, WriteFault::Zero)),
        }
    }
    let end = match crate::ev::guarded(|| w.run(300_000, |_, _| {})) {
        Ok(e) => e,
        Err(p) => {
            // (the mock transport unwinds out of a poll when the task keeps calling it after EOF / an error)
            let sig = if p.starts_with("spin:") { "spin-after-fault".to_string() } else { crate::ev::panic_signature(&p) };
            report(c, case, &w, &sig, format!("[{fault:?}{}] {p}", if sticky { " (sticky)" } else { "" }));
            return Outcome { read_calls: 0, write_calls: 0, ok: false };
        }
    };
    c.l.evaluations += 1;
    let (out, read_total, read_calls, write_calls, after_fault, fired) = {
        let p = w.pipe.lock().unwrap_or_else(std::sync::PoisonError::into_inner);
        (p.outbox.clone(), p.read_total, p.read_calls, p.write_calls, p.bytes_after_write_fault, p.write_fault_fired_at)
    };
    let oc = |ok| Outcome { read_calls, write_calls, ok };
    let what = format!("{fault:?}{}", if sticky { " (sticky)" } else { "" });
    match end {
        End::Budget => {
            c.l.count("step_budget_exhausted");
            return oc(true);
        }
        End::Quiescent => {
            // with an EOF / read fault the reader never blocks again, so a quiescent unfinished
            // task would be a hang; with write faults or no fault it must finish as well
            if fired.is_some() && !case.scripts.iter().all(|s| s.propagate) {
                // a handler that swallowed the write error dropped its writer mid-record; the garbled
                // stream can leave the peer waiting for an EndRequest it cannot decode — the property
                // only speaks about handlers that propagate I/O errors
                c.l.count("write_faults_with_swallowing_handlers");
                return oc(true);
            }
            report(c, case, &w, "hung-after-fault", format!("[{what}] quiescent with Token::run unfinished (peer sent {}/{}, server read {read_total})", w.peer.sent, w.peer.wire.len()));
            return oc(false);
        }
        End::Finished => {}
    }
    let invs = w.log.lock().unwrap().invocations.clone();
    let ids: Vec<u16> = case.reqs.iter().map(|r| r.preamble.id).collect();
    // everything written BEFORE a failed write is judged; what a handler that swallowed the error
    // (dropping a StreamWriter mid-record) causes afterwards is outside the property
    let all_propagate = case.scripts.iter().all(|s| s.propagate);
    let out_full_len = out.len();
    let out: Vec<u8> = match fired {
        Some(at) => out[..at.min(out.len())].to_vec(),
        None => out,
    };
    let _ = out_full_len;
    // ---- the output up to the fault is a prefix of a well-formed record sequence ----------------
    let (recs, _tail) = match spec::decode_output(&out) {
        Ok(x) => x,
        Err(m) => {
            report(c, case, &w, "output-malformed", format!("[{what}] {m}"));
            return oc(false);
        }
    };
    for r in &recs {
        if let OutRec::Other { rtype, .. } = r {
            report(c, case, &w, "output-malformed", format!("[{what}] record of type {rtype} in the output"));
            return oc(false);
        }
    }
    // ---- nothing is written after a failed write (handlers that propagate I/O errors) -----------
    if fired.is_some() {
        c.l.count("write_faults_fired");
        if all_propagate && after_fault > 0 {
            report(c, case, &w, "write-after-failed-write", format!("[{what}] {after_fault} bytes were written after the failed write (all handlers propagate I/O errors)"));
            return oc(false);
        }
    }
    // ---- handlers only for completely delivered preambles ----------------------------------------
    let delivered = match fault {
        Fault::EofAt(o) => o.min(read_total),
        _ => read_total,
    };
    let mut n_pre = 0;
    for (i, m) in model.iter().enumerate() {
        if m.info.end_off <= delivered {
            n_pre = i + 1;
        } else {
            break;
        }
        if case.reqs[i].preamble.flags & 1 == 0 {
            break;
        }
    }
    if invs.len() > n_pre {
        report(c, case, &w, "handler-for-incomplete-preamble", format!("[{what}] {} handler invocation(s) but only {n_pre} preamble(s) were delivered completely ({delivered} bytes)", invs.len()));
        return oc(false);
    }
    if fired.is_some() && !all_propagate {
        c.l.count("write_faults_with_swallowing_handlers");
        return oc(true);
    }
    // ---- answered requests were answered correctly ---------------------------------------------------
    let ended = conn::summarize(&out, &ids).ended;
    if invs.len() < ended || invs.len() > ended + 1 {
        report(c, case, &w, "invocations-vs-endrequests", format!("[{what}] {} invocation(s) but {ended} EndRequest(s)", invs.len()));
        return oc(false);
    }
    if ended > 0 {
        let cut = cut_after_ended(&out, &ids, ended);
        let mut sub = case.clone();
        sub.reqs.truncate(ended);
        let allowed: Vec<ErrorKind> = match fault {
            Fault::EofAt(_) => vec![ErrorKind::UnexpectedEof],
            Fault::ReadErr(_, k) | Fault::WriteErr(_, k) => vec![k, ErrorKind::UnexpectedEof],
            Fault::WriteZero(_) => vec![ErrorKind::WriteZero, ErrorKind::UnexpectedEof],
            Fault::None => vec![],
        };
        if let Err((sig, msg)) = check_conn_ext(&sub, &model[..ended], &out[..cut], &invs[..ended], ended, c.l, &allowed) {
            // management replies after the cut are not part of the judged prefix
            report(c, case, &w, &sig, format!("[{what}] among the {ended} answered request(s): {msg}"));
            return oc(false);
        }
    }
    // EOF: every request delivered completely (along the keep-conn chain) must have been answered
    if let Fault::EofAt(o) = fault {
        let mut n_full = 0;
        for (i, r) in case.reqs.iter().enumerate() {
            if r.end <= o {
                n_full = i + 1;
            } else {
                break;
            }
            if r.preamble.flags & 1 == 0 {
                break;
            }
        }
        if ended < n_full {
            report(c, case, &w, "delivered-request-unanswered", format!("[{what}] {n_full} request(s) were delivered completely before the end-of-file, only {ended} answered"));
            return oc(false);
        }
    }
    // ---- the handler cut off by the fault ----------------------------------------------------------
    if invs.len() == ended + 1 {
        let inv = &invs[ended];
        let m = &model[ended];
        for si in &m.streams.streams {
            let got = reads_of(inv, si.rtype);
            if !si.content.starts_with(&got) {
                report(c, case, &w, "handler-read-wrong-bytes", format!("[{what}] stream {}: bytes read are not a prefix of the stream", si.rtype));
                return oc(false);
            }
            // bytes of the stream whose wire position lies within what the transport delivered
            let available: usize = si.segments.iter().map(|(_, r)| r.end.min(delivered).saturating_sub(r.start.min(delivered))).sum();
            if got.len() > available {
                report(c, case, &w, "handler-read-undelivered-bytes", format!("[{what}] stream {}: {} bytes read, only {available} had been delivered", si.rtype, got.len()));
                return oc(false);
            }
            if inv.eofs.contains(&si.rtype) {
                // an end-of-stream is legitimate only once the terminating record's header arrived
                let arrived = si.term_off.map_or(false, |t| t + 8 <= delivered);
                if !arrived || got.len() != si.content.len() {
                    report(
                        c,
                        case,
                        &w,
                        "short-read-looks-like-eof",
                        format!("[{what}] stream {}: the handler got a successful empty read (end-of-stream) after {} of {} bytes although the stream's end had not arrived ({delivered} bytes delivered, terminator at {:?})", si.rtype, got.len(), si.content.len(), si.term_off),
                    );
                    return oc(false);
                }
            }
        }
        let allowed: Vec<ErrorKind> = match fault {
            Fault::EofAt(_) => vec![ErrorKind::UnexpectedEof],
            Fault::ReadErr(_, k) | Fault::WriteErr(_, k) => vec![k, ErrorKind::UnexpectedEof],
            Fault::WriteZero(_) => vec![ErrorKind::WriteZero, ErrorKind::UnexpectedEof],
            Fault::None => vec![],
        };
        for (op, k) in &inv.errors {
            if !allowed.contains(k) {
                report(c, case, &w, "handler-wrong-error-kind", format!("[{what}] handler operation {op} failed with {k:?}, expected one of {allowed:?}"));
                return oc(false);
            }
            c.l.count(&format!("handler_saw_{k:?}"));
        }
        c.l.count("faults_hitting_a_running_handler");
    } else {
        c.l.count("faults_between_requests_or_in_preamble");
    }
    let phase = if invs.len() == ended + 1 { 1u64 } else { 0 };
    c.l.state(mix(w.hist, phase));
    if !matches!(fault, Fault::None) {
        // one distinct non-trivial case = one (connection, readiness pattern, fault point) executed and judged
        c.l.sig(mix(mix(seed, crate::rng::hash_str(&what)), crate::rng::hash_bytes(12, &case.wire[..case.wire.len().min(64)])));
    }
    oc(true)
}

fn enumerate(c: &mut Case, scale: Scale) {
    // (half of the bases are dense in management records, so that replies are often still queued
    // when a handler returns and Request::close has to flush them)
    let extra_pct = if c.rng.chance(1, 2) { 15 } else { 45 };
    let mut case = conn::gen_conn(&mut c.rng, &GenOpts { max_requests: 3, extra_pct, big: false, keep_conn_pct: 80, no_begin_extras: false });
    if case.wire.len() > 2500 {
        return;
    }
    if c.rng.chance(1, 2) {
        for s in &mut case.scripts {
            s.propagate = true;
        }
    }
    let Ok(model) = conn_model(&case) else { return };
    if c.index == 0 {
        c.l.sample(case.desc.clone());
    }
    let n_patterns = if scale == Scale::Full { 3 } else { 1 };
    for pat in 0..n_patterns {
        let mut cs = case.clone();
        cs.beh = match pat {
            0 => Behaviour::ideal(),
            _ => Behaviour::random(&mut c.rng),
        };
        cs.max_piece = *c.rng.pick(&[1usize, 16, 100_000]);
        let seed = c.rng.next_u64();
        let clean = run_fault(c, &cs, &model, seed, Fault::None);
        if !clean.ok {
            return;
        }
        // EOF at every byte offset
        let step = if scale == Scale::Miri { 37 } else { 1 };
        for o in (0..=cs.wire.len()).step_by(step) {
            if !run_fault(c, &cs, &model, seed, Fault::EofAt(o)).ok {
                return;
            }
            c.l.count("eof_offsets");
        }
        // read error at every read call index
        let kinds = [
            ErrorKind::BrokenPipe,
            ErrorKind::ConnectionReset,
            ErrorKind::TimedOut,
            ErrorKind::Other,
            ErrorKind::Interrupted,
            ErrorKind::UnexpectedEof,
            ErrorKind::InvalidData,
            ErrorKind::ConnectionAborted,
        ];
        let rstep = (clean.read_calls / 400).max(1) * step as u64;
        let mut i = 1;
        while i <= clean.read_calls + 1 {
            let k = kinds[(i as usize) % kinds.len()];
            if !run_fault(c, &cs, &model, seed, Fault::ReadErr(i, k)).ok {
                return;
            }
            if i % 3 == 0 {
                if !run_fault_ext(c, &cs, &model, seed, Fault::ReadErr(i, k), true).ok {
                    return;
                }
                c.l.count("sticky_fault_points");
            }
            c.l.count("read_error_points");
            c.l.count(&format!("read_error_kind_{k:?}"));
            i += rstep;
        }
        // write error / zero-length write at every write call index
        let wstep = (clean.write_calls / 400).max(1) * step as u64;
        let mut j = 1;
        while j <= clean.write_calls + 1 {
            let k = kinds[(j as usize) % kinds.len()];
            if !run_fault(c, &cs, &model, seed, Fault::WriteErr(j, k)).ok || !run_fault(c, &cs, &model, seed, Fault::WriteZero(j)).ok {
                return;
            }
            if !run_fault_ext(c, &cs, &model, seed, Fault::WriteZero(j), true).ok {
                return;
            }
            c.l.count("sticky_fault_points");
            if j % 3 == 0 && !run_fault_ext(c, &cs, &model, seed, Fault::WriteErr(j, k), true).ok {
                return;
            }
            c.l.count("write_fault_points");
            j += wstep;
        }
    }
    c.l.count("base_connections_fully_enumerated");
}

/// Connections with full-size records (content 65535, padding up to 255): faults at the seams of
/// every record (around its header, the end of its content, the end of its padding) rather than
/// at every offset. A handler that returns while such a record's header is parsed but its payload
/// is not leaves `Request::close` with the largest possible amount to skip.
fn enumerate_big(c: &mut Case, scale: Scale) {
    let mut found = None;
    for _ in 0..60 {
        let case = conn::gen_conn(&mut c.rng, &GenOpts { max_requests: 2, extra_pct: 15, big: true, keep_conn_pct: 80, no_begin_extras: false });
        if case.wire.len() > 600_000 {
            continue;
        }
        let (recs, _) = wire::scan(&case.wire);
        if recs.iter().any(|r| r.len() + usize::from(r.padding) >= 65_536) {
            found = Some((case, recs));
            break;
        }
    }
    let Some((mut case, recs)) = found else {
        c.l.count("big_bases_without_full_record");
        return;
    };
    if c.rng.chance(1, 2) {
        for s in &mut case.scripts {
            s.propagate = true;
        }
    }
    // two thirds of the bases: every handler reads its first stream to the end, so that it is the
    // handler's own read that meets the fault right behind the header of the full-size record
    if c.rng.chance(2, 3) {
        for s in &mut case.scripts {
            s.ops = vec![crate::handler::Op::ReadToEnd];
        }
        c.l.count("big_record_bases_with_reading_handlers");
    }
    let Ok(model) = conn_model(&case) else { return };
    let mut offsets = Vec::new();
    for r in &recs {
        for o in [r.off, r.off + 1, r.off + 7, r.off + 8, r.off + 9, r.content.end.saturating_sub(1), r.content.end, r.end.saturating_sub(1), r.end] {
            if o <= case.wire.len() {
                offsets.push(o);
            }
        }
    }
    offsets.sort_unstable();
    offsets.dedup();
    let stride = if scale == Scale::Miri { 23 } else { 1 };
    let n_patterns = if scale == Scale::Full { 2 } else { 1 };
    for pat in 0..n_patterns {
        let mut cs = case.clone();
        cs.beh = match pat {
            0 => Behaviour::ideal(),
            _ => Behaviour::random(&mut c.rng),
        };
        cs.max_piece = *c.rng.pick(&[4096usize, 100_000, usize::MAX]);
        let seed = c.rng.next_u64();
        let clean = run_fault(c, &cs, &model, seed, Fault::None);
        if !clean.ok {
            return;
        }
        for &o in offsets.iter().step_by(stride) {
            if !run_fault(c, &cs, &model, seed, Fault::EofAt(o)).ok {
                return;
            }
            c.l.count("big_record_seam_eof_offsets");
        }
        let kinds = [ErrorKind::BrokenPipe, ErrorKind::ConnectionAborted, ErrorKind::Interrupted, ErrorKind::Other];
        let rstep = (clean.read_calls / 40).max(1) * stride as u64;
        let mut i = 1;
        while i <= clean.read_calls + 1 {
            let k = kinds[(i as usize) % kinds.len()];
            if !run_fault(c, &cs, &model, seed, Fault::ReadErr(i, k)).ok {
                return;
            }
            c.l.count("big_record_read_error_points");
            i += rstep;
        }
    }
    c.l.count("big_record_bases_enumerated");
}

pub fn run(ctx: &Ctx, evidence: Option<&PathBuf>) -> i32 {
    let scale = ctx.scale;
    ctx.run_fixed("directed", if ctx.miri() { 1 } else { ctx.dn(32) }, |c| enumerate(c, scale));
    let n = ctx.size3(200, 10_000, 1);
    ctx.run_cases("fault-points", n, |c| enumerate(c, scale));
    // (not under Miri: one such connection is several hundred KB through the interpreter)
    if !ctx.miri() {
        let nb = ctx.dn(ctx.size3(16, 100, 1));
        ctx.run_cases("big-record-seams", nb, |c| enumerate_big(c, scale));
        ctx.gate("big_record_seam_eof_offsets", 100);
        ctx.gate("big_record_bases_with_reading_handlers", 1);
    }
    ctx.gate("eof_offsets", 5_000);
    ctx.gate("read_error_points", 500);
    ctx.gate("write_fault_points", 500);
    ctx.gate("write_faults_fired", 300);
    ctx.gate("sticky_fault_points", 200);
    ctx.gate("read_error_kind_Interrupted", 50);
    ctx.gate("faults_hitting_a_running_handler", 300);
    ctx.gate("faults_between_requests_or_in_preamble", 300);
    ctx.gate("handler_saw_UnexpectedEof", 100);
    ctx.finish(
        "fault_enumeration",
        "for each scripted connection (1..3 requests <= 2.5 KB, all roles, management records, C07 handler family, half of them with every handler propagating I/O errors) and 3 readiness patterns (ideal; two random mixes of short / pending reads and writes, peer pieces of 1 / 16 / all bytes): \
         a clean run, then EOF injected at EVERY byte offset 0..N, a read error (BrokenPipe / ConnectionReset / TimedOut / Other) at every read call index, a write error and a zero-length write at every write call index (call indices of the clean run with the same seeds; capped at ~400 points per class for very chatty runs). \
         Oracle: Token::run returns (quiescence with the task unfinished = hang; >2000 transport calls after a terminal result unwinds as 'spin'); no panic; the output decodes as a prefix of a well-formed record sequence; with all handlers propagating, zero bytes are written after the failed write; \
         handler invocations <= completely delivered preambles; the requests that were answered satisfy the full C07 oracle; under EOF every completely delivered request along the keep-conn chain is answered; the handler cut off by the fault read only a prefix of the delivered bytes, never got a successful empty read for a stream whose end had not arrived, and saw only UnexpectedEof / the injected kind / WriteZero. \
         big-record-seams: connections of 1..2 requests that contain at least one record with content + padding >= 65536, EOF at the seams of every record (start, inside and end of the header, first payload byte, end of content, end of padding) and read errors at ~40 evenly spaced read calls, same oracle. \
         distinct_nontrivial = distinct (connection, readiness pattern, fault point) executions that were judged (set); distinct_states_observed = distinct (executor interleaving, fault phase).",
        &["spin is a bounded-call criterion inside the mock transport", "step budget exhaustion is counted, not judged"],
        false,
        evidence,
    )
}
