//! A whole scripted connection through `Token::run`: scripted peer (open-/closed-loop), mock
//! transport, interpreted handlers, deterministic executor. Used by C07, C08, C09, C11, C12, C14.

use std::future::Future;
use std::sync::Arc;

use fastcgi_server::async_io::Runner;

use crate::c02::config;
use crate::exec::Exec;
use crate::gen::{self, BuiltReq, ReqSpec};
use crate::handler::{self, HLog, Op, Script, SharedLog};
use crate::json::Json;
use crate::rng::{mix, Rng};
use crate::spec::{self, OutRec};
use crate::transport::{Behaviour, Pipe, Reader, Shared, Writer};
use crate::wire;

#[derive(Clone, Copy, Debug, PartialEq, Eq)]
pub enum Need {
    /// n EndRequest records answering handled requests (protocol status != CantMpxConn/UnknownRole replies of the parser are not counted: see `ended`)
    Ended(usize),
    /// n management replies (GetValuesResult + UnknownType records)
    Replies(usize),
}

/// The peer may not send bytes at or beyond `offset` until `need` is observed in the output.
#[derive(Clone, Copy, Debug)]
pub struct Barrier {
    pub offset: usize,
    pub need: Need,
}

pub struct Peer {
    pub wire: Vec<u8>,
    pub sent: usize,
    pub barriers: Vec<Barrier>,
    /// preferred cut points (record boundaries etc.); pieces end at one of them or anywhere
    pub max_piece: usize,
    pub close_at_end: bool,
    pub closed: bool,
    /// ids of the real requests, in order (to recognise their EndRequest records)
    pub request_ids: Vec<u16>,
}

#[derive(Clone, Debug, Default)]
pub struct OutSummary {
    pub recs: Vec<OutRec>,
    pub tail: usize,
    pub malformed: Option<String>,
    pub ended: usize,
    pub replies: usize,
}

pub fn summarize(out: &[u8], request_ids: &[u16]) -> OutSummary {
    match spec::decode_output(out) {
        Err(m) => OutSummary { malformed: Some(m), ..OutSummary::default() },
        Ok((recs, tail)) => {
            let mut ended = 0;
            let mut replies = 0;
            for r in &recs {
                match r {
                    OutRec::End { id, status, .. } => {
                        // EndRequest for the next expected real request, written by close()
                        if request_ids.get(ended) == Some(id) && *status != wire::ST_CANT_MPX {
                            ended += 1;
                        }
                    }
                    OutRec::Values { .. } | OutRec::Unknown { .. } => replies += 1,
                    _ => {}
                }
            }
            OutSummary { recs, tail, malformed: None, ended, replies }
        }
    }
}

impl Peer {
    /// How many bytes may be sent right now (0 = blocked on a barrier or finished).
    pub fn sendable(&self, out: &OutSummary) -> usize {
        let mut limit = self.wire.len();
        for b in &self.barriers {
            if b.offset > self.sent || (b.offset == self.sent && b.offset < self.wire.len()) {
                let ok = match b.need {
                    Need::Ended(n) => out.ended >= n,
                    Need::Replies(n) => out.replies >= n,
                };
                if !ok {
                    limit = limit.min(b.offset);
                }
            }
        }
        limit.saturating_sub(self.sent)
    }

    pub fn blocked_on(&self, out: &OutSummary) -> Option<Barrier> {
        self.barriers
            .iter()
            .find(|b| {
                b.offset == self.sent
                    && b.offset < self.wire.len()
                    && !match b.need {
                        Need::Ended(n) => out.ended >= n,
                        Need::Replies(n) => out.replies >= n,
                    }
            })
            .copied()
    }
}

#[derive(Clone)]
pub struct ConnCase {
    pub wire: Vec<u8>,
    pub reqs: Vec<BuiltReq>,
    pub scripts: Vec<Script>,
    pub buffer: usize,
    pub conns: usize,
    pub beh: Behaviour,
    pub barriers: Vec<Barrier>,
    pub max_piece: usize,
    pub close_at_end: bool,
    pub desc: Json,
}

pub struct GenOpts {
    pub max_requests: usize,
    pub extra_pct: usize,
    pub big: bool,
    pub keep_conn_pct: usize,
    /// no stray BeginRequest records inside preambles
    pub no_begin_extras: bool,
}

/// An open-loop connection: 1..k requests; request i+1 is released only after EndRequest i.
pub fn gen_conn(rng: &mut Rng, o: &GenOpts) -> ConnCase {
    let buffer = *rng.pick(&[24usize, 64, 100, 500, 8192, 8192]);
    let eff = buffer.max(24);
    let k = 1 + rng.below(o.max_requests);
    let mut wire_bytes = Vec::new();
    let mut reqs = Vec::new();
    let mut scripts = Vec::new();
    let mut barriers = Vec::new();
    let same_id = rng.chance(1, 2);
    let base_id = gen::gen_request_id(rng);
    for i in 0..k {
        let role = gen::gen_role(rng);
        let keep = rng.below(100) < o.keep_conn_pct;
        let flags = (rng.u8() & !1) | u8::from(keep);
        let spec = ReqSpec {
            id: if same_id { base_id } else { gen::gen_request_id(rng) },
            role,
            flags,
            max_pairs: 5,
            max_pair: eff - 13,
            big_pairs: false,
            max_stream_records: 5,
            big_records: o.big && eff >= 500 && rng.chance(1, 6),
            extra_pct_pre: o.extra_pct,
            extra_pct_stream: o.extra_pct,
            tag_base: (i as u8) & 1,
            extras_pre: if o.no_begin_extras { &gen::EXTRAS_PREAMBLE_NO_BEGIN } else { &gen::EXTRAS_PREAMBLE },
            extras_stream: &[
                gen::Extra::GetValues,
                gen::Extra::GetValuesEmpty,
                gen::Extra::UnknownType,
                gen::Extra::ForeignStream,
                gen::Extra::ForeignAbort,
                gen::Extra::StaleParams,
                gen::Extra::OddKnown,
                gen::Extra::OutOfRoleStream,
                gen::Extra::GetValuesNonNull,
            ],
            marker: Some(i as u8),
        };
        let b = gen::push_request(rng, &mut wire_bytes, &spec);
        scripts.push(handler::gen_script(rng, role, o.big));
        reqs.push(b);
        barriers.push(Barrier { offset: wire_bytes.len(), need: Need::Ended(i + 1) });
    }
    let beh = Behaviour::random(rng);
    let conns = *rng.pick(&[1usize, 10, 100]);
    let desc = Json::obj()
        .with("buffer_size", buffer)
        .with("requests", k)
        .with("roles", reqs.iter().map(|r| r.preamble.role).collect::<Vec<_>>())
        .with("keep_conn", reqs.iter().map(|r| r.preamble.flags & 1).collect::<Vec<_>>())
        .with("wire_len", wire_bytes.len())
        .with("transport", format!("{beh:?}"))
        .with("scripts", scripts.iter().map(|s| format!("{:?} propagate={} status={:?}", s.ops, s.propagate, s.status)).collect::<Vec<_>>());
    ConnCase { wire: wire_bytes, reqs, scripts, buffer, conns, beh, barriers, max_piece: *rng.pick(&[1usize, 7, 40, 300, 100_000]), close_at_end: true, desc }
}

#[derive(Clone, Copy, Debug, PartialEq, Eq)]
pub enum Action {
    Poll(usize),
    PeerSend,
    PeerClose,
    ReaderReady,
    WriterReady,
    Shutdown,
}

#[derive(Clone, Copy, Debug, PartialEq, Eq)]
pub enum End {
    /// every task finished
    Finished,
    /// no runnable task, no enabled environment action, main task unfinished
    Quiescent,
    Budget,
}

pub struct World<'a> {
    pub exec: Exec<'a>,
    pub pipe: Shared,
    pub peer: Peer,
    pub log: SharedLog,
    pub rng: Rng,
    pub steps: u64,
    pub hist: u64,
    pub main_task: usize,
    /// optional one-shot environment action (C14: request shutdown) enabled from this step on
    pub shutdown_at: Option<u64>,
    pub shutdown_fn: Option<Box<dyn FnOnce() + 'a>>,
    pub shutdown_done_at: Option<u64>,
    pub main_finished_at: Option<u64>,
    pub trace: Vec<Action>,
    pub out_cache: (usize, OutSummary),
}

impl<'a> World<'a> {
    /// Incrementally maintained counts of EndRequest / management replies in the output.
    pub fn out_summary(&mut self) -> OutSummary {
        let p = self.pipe.lock().unwrap_or_else(std::sync::PoisonError::into_inner);
        let out = &p.outbox;
        let (mut upto, sum) = (self.out_cache.0, &mut self.out_cache.1);
        while out.len() - upto >= 8 {
            let h = &out[upto..upto + 8];
            let clen = usize::from(u16::from_be_bytes([h[4], h[5]]));
            let end = upto + 8 + clen + usize::from(h[6]);
            if end > out.len() {
                break;
            }
            let id = u16::from_be_bytes([h[2], h[3]]);
            match h[1] {
                wire::END => {
                    let status = if clen >= 5 { out[upto + 8 + 4] } else { 0xff };
                    if self.peer.request_ids.get(sum.ended) == Some(&id) && status != wire::ST_CANT_MPX {
                        sum.ended += 1;
                    }
                }
                wire::GETVALUESRESULT | wire::UNKNOWN => sum.replies += 1,
                _ => {}
            }
            upto = end;
        }
        self.out_cache.0 = upto;
        OutSummary { recs: Vec::new(), tail: upto, malformed: None, ended: sum.ended, replies: sum.replies }
    }

    /// Bytes the peer may send now. Pieces never cross a barrier offset, so the (expensive)
    /// output summary is only needed when the peer stands exactly at a barrier.
    fn peer_sendable(&mut self) -> usize {
        let sent = self.peer.sent;
        let at_barrier = self.peer.barriers.iter().any(|b| b.offset == sent && b.offset < self.peer.wire.len());
        if at_barrier {
            let out = self.out_summary();
            if self.peer.blocked_on(&out).is_some() {
                return 0;
            }
        }
        let next = self.peer.barriers.iter().map(|b| b.offset).filter(|&o| o > sent).min().unwrap_or(self.peer.wire.len());
        next.min(self.peer.wire.len()) - sent
    }

    pub fn enabled(&mut self) -> Vec<Action> {
        let mut v: Vec<Action> = self.exec.runnable().into_iter().map(Action::Poll).collect();
        if !self.peer.closed {
            if self.peer_sendable() > 0 {
                v.push(Action::PeerSend);
            } else if self.peer.sent == self.peer.wire.len() && self.peer.close_at_end {
                // the peer closes once everything it waits for has arrived
                let out = self.out_summary();
                let pending = self.peer.barriers.iter().any(|b| {
                    b.offset >= self.peer.wire.len()
                        && !match b.need {
                            Need::Ended(n) => out.ended >= n,
                            Need::Replies(n) => out.replies >= n,
                        }
                });
                if !pending {
                    v.push(Action::PeerClose);
                }
            }
        }
        {
            let p = self.pipe.lock().unwrap_or_else(std::sync::PoisonError::into_inner);
            if p.read_gated {
                v.push(Action::ReaderReady);
            }
            if p.write_gated {
                v.push(Action::WriterReady);
            }
        }
        if self.shutdown_fn.is_some() && self.shutdown_at.map_or(false, |s| self.steps >= s) {
            // forced: the shutdown request happens exactly at its step
            return vec![Action::Shutdown];
        }
        v
    }

    pub fn perform(&mut self, a: Action) {
        self.steps += 1;
        self.log.lock().unwrap().clock = self.steps;
        self.hist = mix(self.hist, match a {
            Action::Poll(i) => 0x10 + i as u64,
            Action::PeerSend => 1,
            Action::PeerClose => 2,
            Action::ReaderReady => 3,
            Action::WriterReady => 4,
            Action::Shutdown => 5,
        });
        if self.trace.len() < 3000 {
            self.trace.push(a);
        }
        match a {
            Action::Poll(i) => {
                let done = self.exec.poll(i);
                if done && i == self.main_task {
                    self.main_finished_at = Some(self.steps);
                }
            }
            Action::PeerSend => {
                let can = self.peer_sendable();
                let n = if self.peer.max_piece == usize::MAX {
                    can // (sentinel: the peer always sends everything it may send in one piece)
                } else if can > 1 && self.rng.chance(2, 3) { self.rng.range(1, can.min(self.peer.max_piece.max(1))) } else { can.min(self.peer.max_piece.max(1)) };
                let s = self.peer.sent;
                let chunk = self.peer.wire[s..s + n].to_vec();
                self.peer.sent += n;
                self.pipe.lock().unwrap_or_else(std::sync::PoisonError::into_inner).peer_send(&chunk);
            }
            Action::PeerClose => {
                self.peer.closed = true;
                self.pipe.lock().unwrap_or_else(std::sync::PoisonError::into_inner).peer_close();
            }
            Action::ReaderReady => self.pipe.lock().unwrap_or_else(std::sync::PoisonError::into_inner).reader_ready(),
            Action::WriterReady => self.pipe.lock().unwrap_or_else(std::sync::PoisonError::into_inner).writer_ready(),
            Action::Shutdown => {
                if let Some(f) = self.shutdown_fn.take() {
                    f();
                    self.shutdown_done_at = Some(self.steps);
                }
            }
        }
    }

    /// Runs until every task finished, quiescence, or the step budget is exhausted.
    /// `after` is called after every action (suspension-point observers hook in here).
    pub fn run(&mut self, budget: u64, mut after: impl FnMut(&mut World<'a>, Action)) -> End {
        loop {
            if self.exec.is_done(self.main_task) && self.exec.all_done() {
                return End::Finished;
            }
            if self.steps >= budget {
                return End::Budget;
            }
            let en = self.enabled();
            if en.is_empty() {
                return if self.exec.is_done(self.main_task) { End::Finished } else { End::Quiescent };
            }
            let a = en[self.rng.below(en.len())];
            self.perform(a);
            after(self, a);
        }
    }
}

/// Builds the world for one connection through `Token::run`.
/// Returns the world and the runner (for shutdown scenarios).
pub fn build_world<'a>(case: &ConnCase, rng: Rng) -> (World<'a>, Runner) {
    let mut rng = rng;
    let cfg = config(case.buffer, case.conns);
    let runner = cfg.async_runner();
    let pipe = Pipe::new(Rng::new(rng.next_u64()), case.beh.clone());
    let log: SharedLog = Arc::new(std::sync::Mutex::new(HLog::default()));
    let mut exec = Exec::new();
    // acquire the token synchronously (a slot is free)
    let token = {
        let fut = runner.get_token();
        let mut fut = Box::pin(fut);
        let w = crate::exec::CountWaker::new();
        let waker = std::task::Waker::from(w);
        let mut cx = std::task::Context::from_waker(&waker);
        match fut.as_mut().poll(&mut cx) {
            std::task::Poll::Ready(t) => t,
            std::task::Poll::Pending => panic!("harness: token not available on a fresh runner"),
        }
    };
    let h = handler::make_handler(case.scripts.clone(), log.clone());
    let fut = token.run(Reader(pipe.clone()), Writer(pipe.clone()), h);
    let main_task = exec.spawn(Box::pin(fut));
    let peer = Peer {
        wire: case.wire.clone(),
        sent: 0,
        barriers: case.barriers.clone(),
        max_piece: case.max_piece,
        close_at_end: case.close_at_end,
        closed: false,
        request_ids: case.reqs.iter().map(|r| r.preamble.id).collect(),
    };
    let w = World {
        exec,
        pipe,
        peer,
        log,
        rng,
        steps: 0,
        hist: 0,
        main_task,
        shutdown_at: None,
        shutdown_fn: None,
        shutdown_done_at: None,
        main_finished_at: None,
        trace: Vec::new(),
        out_cache: (0, OutSummary::default()),
    };
    (w, runner)
}

pub fn trace_tail(w: &World, n: usize) -> Vec<String> {
    w.trace.iter().rev().take(n).rev().map(|a| format!("{a:?}")).collect()
}

/// Turns a scripted connection into one driven by a client that does not wait for EndRequest
/// (everything is sent at once): every handler reads its input streams to the end, so that the
/// next request stays buffered behind the held terminator — the only hand-off at which the parsers
/// can keep look-ahead that includes a BeginRequest (DESIGN §9.4). Callers exclude roles without
/// input streams.
pub fn make_pipelined(case: &mut ConnCase) {
    // (the whole next request must fit into the look-ahead: large buffer, large pieces)
    case.buffer = 8192;
    case.max_piece = 100_000;
    case.barriers.clear();
    for (s, r) in case.scripts.iter_mut().zip(&case.reqs) {
        let mut ops = vec![Op::ReadToEnd];
        if r.preamble.role == crate::wire::FILTER {
            ops.push(Op::SetStream(crate::wire::DATA));
            ops.push(Op::ReadToEnd);
        }
        ops.extend(s.ops.iter().filter(|o| matches!(o, Op::Write(..) | Op::Flush(_) | Op::Yield)).cloned());
        *s = Script { ops, propagate: true, status: s.status };
    }
}
