#!/usr/bin/env python3-vt
"""Validates MANIFEST.json and every evidence file against the schemas in /root/.vp."""
import json, sys, glob, jsonschema
ok = True
ms = json.load(open('/root/.vp/MANIFEST.schema.json'))
es = json.load(open('/root/.vp/EVIDENCE.schema.json'))
try:
    jsonschema.validate(json.load(open('/verif/MANIFEST.json')), ms)
    print("MANIFEST.json valid")
except Exception as e:
    ok = False; print("MANIFEST.json INVALID:", str(e)[:500])
for p in sorted(glob.glob('/verif/evidence/*.json')):
    try:
        e = json.load(open(p)); jsonschema.validate(e, es)
        c = e['coverage']
        print(f"{p}: valid  tier={e['tier']} evals={c.get('evaluations')} distinct={c.get('distinct_nontrivial')} viol={e.get('violations')} wall={e['wall_s']}")
    except Exception as ex:
        ok = False; print(f"{p}: INVALID {str(ex)[:300]}")
sys.exit(0 if ok else 1)
