#!/usr/bin/env python3
"""Regenerates /verif/MANIFEST.json from the table below (single source of truth)."""
import json, os

V = os.path.dirname(os.path.abspath(__file__))

# id -> (category, technique, level text, level note, design ref)
P = {
 "C01": ("exploration", "runtime monitoring: real request::Parser driven by generated preambles x record cuts x chunkings; oracle = independent whole-input reference decoder; debug-assertion/overflow monitors; Miri+ASan re-runs",
         "Held on every generated preamble/segmentation/chunking/buffer size explored (counts in evidence). Exploration is the right level: the input space is unbounded, the oracle is exact.",
         "Trusted: the harness's own FastCGI reference decoder (spec.rs/wire.rs) and String::from_utf8_lossy as the lossy-decoding model.", "DESIGN.md §4 C01"),
 "C02": ("exploration", "runtime monitoring: stream::Parser under generated caller schedules; tagged payload bytes make histories unambiguous; shadow-buffer oracle after every action; reference model E(s)",
         "Held on every generated record sequence x caller schedule explored.", "Trusted: reference model of stream extraction (spec.rs); documented preconditions respected by the driver.", "DESIGN.md §4 C02"),
 "C03": ("exploration", "runtime monitoring: totality (catch_unwind, per-call watchdog) + metamorphic chunking-invariance + sticky-fatal invariant on mutated and random traffic; monitor and plain-release builds; Miri/ASan",
         "No panic/hang and identical outcome across chunkings for every hostile input explored.", "Only invariance is asserted on malformed input; the model is not trusted as a specification of error choice.", "DESIGN.md §4 C03"),
 "C04": ("exploration", "runtime monitoring: decoded parser output vs reference reply list, exhaustive body splits, all 245 unknown types, consume_output interleavings",
         "Held for every placement/body/split explored; unknown-type space and per-body split offsets enumerated completely.", "Trusted: reference reply model with the tolerances of DESIGN.md §3.2.", "DESIGN.md §4 C04"),
 "C05": ("exploration", "runtime monitoring: differential (k requests on one buffer chain vs reference model) with byte-exact leftover comparison at every hand-off",
         "Held on every conversion chain explored.", "Trusted: reference model; clone().into_input() as a non-destructive probe.", "DESIGN.md §4 C05"),
 "C06": ("exploration", "runtime monitoring: exhaustive buffer_size sweep for the sizing rule + boundary-pair preambles under all chunking families; invariant done==false => input buffer non-empty after every parse",
         "Sizing rule decided exhaustively for 0..=1 MiB; bound B-13 held on all generated boundary cases.", "Trusted: reference decoder.", "DESIGN.md §4 C06"),
 "C07": ("exploration", "runtime monitoring: Token::run under a deterministic waker-driven executor with mock transport (short/pending reads+writes), scripted handlers, open-loop peer; history oracle on decoded transport log + handler log",
         "Held on every connection x handler script x transport schedule explored.", "Trusted: executor/transport mocks, reference model; liveness restated as bounded progress.", "DESIGN.md §4 C07"),
 "C08": ("exploration", "runtime monitoring: closed-loop peer + executor that polls only woken tasks; invariant at every input-suspension point (owed replies handed to transport) and quiescence = wait-for cycle",
         "Held at every suspension point of every scenario explored.", "'Indefinitely' is restated as quiescence under an executor that never polls un-woken tasks.", "DESIGN.md §4 C08"),
 "C09": ("exploration", "runtime monitoring: Request read interfaces driven call-by-call by seeded scripts; per-stream tagged bytes vs reference model; monotone writeable flag invariant",
         "Held on every script x transport pattern explored.", "Trusted: mocks and reference model.", "DESIGN.md §4 C09"),
 "C10": ("exploration", "runtime monitoring: 1..3 StreamWriters on separately polled tasks (deterministic scheduler) and on real threads (TSan, Miri seeds); decoded byte log vs tagged write log",
         "Held for every poll order / partial-write pattern explored; thread runs add data-race detection.", "Trusted: mock transport, decoder.", "DESIGN.md §4 C10"),
 "C11": ("fault_enumeration", "runtime monitoring with fault enumeration: AbortRequest injected after every record of scripted connections (sync parsers and Token::run); history oracle",
         "Every abort position of every scripted connection executed.", "Trusted: mocks, reference model.", "DESIGN.md §4 C11"),
 "C12": ("fault_enumeration", "runtime monitoring with fault enumeration: EOF at every byte offset, read error at every read call, write error/zero-write at every write call of small scripted connections, plus EOF at every record seam and sampled read errors of connections with full-size (64 KiB) records; totality, no-spin and prefix oracles",
         "Every fault point of every small scripted connection executed; record seams of big-record connections.", "Spin = bounded-poll criterion; step budget exhaustion is inconclusive.", "DESIGN.md §4 C12"),
 "C13": ("exploration", "runtime monitoring: live-token counter invariant over generated operation histories (per-future counting wakers, quiescent-point invariant) + real-thread stress with quiescence detector; TSan, Miri seeds",
         "Held after every operation of every history explored and on all thread interleavings observed.", "Thread interleavings are whatever the OS/TSan/Miri scheduler produced.", "DESIGN.md §4 C13"),
 "C14": ("fault_enumeration", "runtime monitoring: shutdown requested at every executor step of scripted connections; hook-forced last-token drop inside WaitGroupFuture::poll windows; thread stress with lost-wakeup (quiescence) detector",
         "Every shutdown step and both hook windows executed.", "Uses the cfg(fastcgi_server_verif) scheduling hook.", "DESIGN.md §4 C14"),
 "C15": ("exploration", "runtime monitoring by exhaustive execution: all 2^31 values / 2^32 u32 conversions through the real codec vs integer arithmetic (quick: structured + random subset); Miri slice",
         "Thorough tier enumerates the whole domain (exhaustive: true); quick tier ~19 M distinct values.", "Model = integer arithmetic in the harness.", "DESIGN.md §4 C15"),
 "C16": ("exploration", "runtime monitoring: small-scope exhaustive byte strings + generated pair lists, every prefix; oracle = independent decoder + address arithmetic for zero-copy; Miri/ASan",
         "Held on all enumerated and generated inputs and all their prefixes.", "Trusted: harness decoder.", "DESIGN.md §4 C16"),
 "C17": ("exploration", "runtime monitoring: per-field exhaustive encode/decode identities and reply generation vs independent encoder; epilogue judged on transport log",
         "Finite sub-spaces enumerated completely, the rest sampled.", "Trusted: harness encoder (wire.rs).", "DESIGN.md §4 C17"),
 "C18": ("exploration", "runtime monitoring: exhaustive role x current x requested selection table + generated set_stream/parse histories with tagged bytes",
         "Selection table decided exhaustively; histories explored.", "Trusted: reference model.", "DESIGN.md §4 C18"),
 "C19": ("exploration", "runtime monitoring: algebraic laws (eq/ord/hash/constructors) over exhaustive small alphabets, all interned names, boundary-length strings, three hashers; Miri slice",
         "Held on all pairs/triples enumerated.", "Model = std eq_ignore_ascii_case / to_ascii_uppercase.", "DESIGN.md §4 C19"),
 "C20": ("exploration", "runtime monitoring: all status codes x header lists x every destination capacity vs format! model",
         "Status codes and capacities enumerated exhaustively.", "Model = format! in the harness.", "DESIGN.md §4 C20"),
}

IMPLEMENTED = [l.strip() for l in open(os.path.join(V, "implemented.txt")) if l.strip() and not l.startswith("#")]

m = {
 "version": 1,
 "setup_cmd": "cd /verif/harness && CARGO_NET_OFFLINE=true RUSTFLAGS='--cfg fastcgi_server_verif' cargo build --offline --profile monitor && CARGO_NET_OFFLINE=true RUSTFLAGS='--cfg fastcgi_server_verif' cargo build --offline --release",
 "hooks": {
  "guard": "--cfg fastcgi_server_verif",
  "enable": "RUSTFLAGS='--cfg fastcgi_server_verif' (set by ./check for every build of /verif/harness, which path-depends on /repo)",
  "baseline_off_cmd": "cd /repo && cargo nextest run --workspace --no-fail-fast --test-threads 8 --offline || cargo test --workspace --no-fail-fast --offline",
  "source_commits": [l.strip() for l in open(os.path.join(V, "hook_commits.txt")) if l.strip()],
  "add_only": True,
 },
 "engines": [
  {"name": "fcgi-verif", "path": "harness/", "serves_properties": IMPLEMENTED,
   "kind_free_text": "Rust harness: generators, deterministic executor + mock transport, independent reference model, oracles, evidence; driven by ./check (python) which also runs the Miri/ASan/TSan/plain-release re-runs"},
 ],
 "checks": [],
 "not_applicable": [],
 "notes": "All checks: ./check <ID> [--tier quick|thorough]; VERIF_SEED / VERIF_TIER honoured. exit 0 held / 1 VIOLATION / 2 INCONCLUSIVE. Known findings: known_findings.json.",
}
for pid in sorted(P):
    cat, tech, text, note, ref = P[pid]
    if pid in IMPLEMENTED:
        m["checks"].append({
            "property_id": pid,
            "quick_cmd": f"./check {pid} --tier quick",
            "thorough_cmd": f"./check {pid} --tier thorough",
            "evidence_file": f"/verif/evidence/{pid}.json",
            "replay_cmd_template": f"./check {pid} --replay {{path}}",
            "engine": "fcgi-verif",
            "level_claimed": {"category": cat, "text": text, "design_ref": ref},
            "level_note": note,
            "technique": tech,
        })
    else:
        m["not_applicable"].append({"property_id": pid, "reason": "check designed (DESIGN.md §4) but not built yet in this round; not claimed until it runs"})
json.dump(m, open(os.path.join(V, "MANIFEST.json"), "w"), indent=1)
print("MANIFEST.json:", len(m["checks"]), "checks,", len(m["not_applicable"]), "not claimed")
