#!/bin/bash
# usage: tools/run_all.sh [quick|thorough] [seed]   — runs every claimed check on /repo's current tree
tier="${1:-quick}"; seed="${2:-1}"
cd "$(dirname "$0")/.."
fail=0
for id in $(cat implemented.txt); do
  t0=$(date +%s)
  out=$(VERIF_SEED=$seed timeout 14400 ./check "$id" --tier "$tier" 2>&1); rc=$?
  t1=$(date +%s)
  echo "$id rc=$rc $((t1-t0))s $(echo "$out" | grep -E '^(OK|VIOLATION|INCONCLUSIVE|KNOWN)' | head -3 | tr '\n' ' ')"
  [ $rc -eq 0 ] || fail=1
done
exit $fail
