#!/usr/bin/env python3
"""Runs every seeded change under /verif/seeded against its property's quick check (and any extra
checks named on the command line as PID=ID,ID), restores /repo each time, and writes
seeded/<dir>/meta.json plus seeded/MATRIX.md.   usage: tools/seeded_matrix.py [dir ...]"""
import json, os, re, subprocess, sys, glob

V = '/verif'
EXTRA = {  # other checks that are also expected to see the change (cross-detection worth recording)
    'C01-2': ['C06'], 'C06-1': ['C01'], 'C06-2': ['C01'], 'C02-1': ['C18', 'C05'], 'C18-1': ['C02'], 'C18-2': ['C02'],
    'C03-1': ['C02'], 'C03-2': ['C04', 'C01'], 'C04-1': ['C01'], 'C04-2': ['C02'], 'C05-2': ['C02', 'C18'],
    'C09-1': ['C07'], 'C09-2': ['C07'], 'C08-1': ['C07'], 'C08-2': ['C07'], 'C15-1': ['C16'], 'C16-1': ['C15'],
    'C08-revert-fixA': ['C07'], 'C08-revert-fixB': [],
    'C10-revert-fixC': [], 'C12-revert-fixD': [], 'C13-revert-fixE': [], 'C07-revert-fixF': ['C08', 'C12'],
    'C01-r4-1': ['C05', 'C08'], 'C01-r4-3': ['C05', 'C02'], 'C04-r4-2': ['C05', 'C07'], 'C03-r4-1': ['C06'], 'C05-r4-3': ['C07'], 'C12-r4-3': ['C07'],
    'C05-r3-1': ['C07'], 'C08-r3-2': ['C07'], 'C11-r3-2': ['C07', 'C08'], 'C01-r3-1': ['C03'], 'C11-r3-1': ['C01'], 'C07-r3-1': ['C05'], 'C17-r3-1': ['C07'], 'C09-r3-2': ['C02'],
    'C01-r5-3': ['C19'], 'C02-r5-1': ['C18'], 'C02-r5-2': ['C05', 'C03'], 'C02-r5-3': ['C06'], 'C03-r5-1': ['C16', 'C04'], 'C03-r5-2': ['C02', 'C04'], 'C03-r5-3': ['C04'],
    'C05-r5-1': ['C11', 'C04'], 'C05-r5-2': ['C07'], 'C07-r5-1': ['C06', 'C01'], 'C07-r5-2': ['C19'], 'C08-r5-3': ['C07'], 'C09-r5-2': ['C11', 'C07'], 'C12-r5-1': ['C11'],
    'C17-r5-1': ['C07'], 'C17-r5-3': ['C11'], 'C18-r5-1': ['C02', 'C03'], 'C18-r5-2': ['C09', 'C07'], 'C10-r5-2': ['C04'], 'C11-r5-1': ['C07'], 'C11-r5-3': ['C07'],
    'C01-r6-1': ['C03', 'C04'], 'C01-r6-2': ['C04', 'C03'], 'C02-r6-1': ['C18'], 'C03-r6-1': ['C11', 'C01'], 'C03-r6-2': ['C04', 'C01'], 'C05-r6-1': ['C02'],
    'C09-r6-1': ['C04', 'C07'], 'C10-r6-2': ['C04'], 'C12-r6-1': ['C02', 'C07'], 'C12-r6-2': ['C07', 'C11'], 'C18-r6-1': ['C02'], 'C18-r6-2': ['C09', 'C07'],
    'C05-r2-2': ['C07'], 'C10-r2-3': ['C07', 'C08'], 'C17-r2-3': ['C07'], 'C05-r2-3': ['C03', 'C01'], 'C03-r2-2': ['C01'], 'C04-r2-3': ['C01'],
}
dirs = sys.argv[1:] or sorted(d for d in os.listdir(f'{V}/seeded') if os.path.isdir(f'{V}/seeded/{d}'))
rows = []
for d in dirs:
    path = f'{V}/seeded/{d}'
    patch = f'{path}/patch.diff'
    if not os.path.exists(patch):
        continue
    pid = d.split('-')[0]
    checks = [pid] + EXTRA.get(d, [])
    if subprocess.run(['git', '-C', '/repo', 'diff', '--quiet']).returncode != 0:
        print('/repo not clean'); sys.exit(9)
    if subprocess.run(['git', '-C', '/repo', 'apply', patch]).returncode != 0:
        print(f'{d}: patch does not apply'); continue
    res = {}
    try:
        for cid in checks:
            p = subprocess.run(['timeout', '900', './check', cid], cwd=V, capture_output=True, text=True, env=dict(os.environ, VERIF_EVIDENCE_DIR=f'{V}/out/evidence-seeded'))
            sigs = sorted(set(re.findall(r'^  signature: (.*)$', p.stdout, re.M)))
            nviol = len(re.findall(r'^VIOLATION', p.stdout, re.M))
            res[cid] = {'exit': p.returncode, 'violation_lines': nviol, 'signatures': sigs}
            print(f'{d} vs {cid}: exit={p.returncode} sigs={sigs[:3]}', flush=True)
    finally:
        subprocess.run(['git', '-C', '/repo', 'checkout', '--', '.'])
        subprocess.run(['git', '-C', '/repo', 'clean', '-fdq', '-e', 'target'])
    confirm = {}
    if os.path.exists(f'{path}/confirm.json'):
        confirm = json.load(open(f'{path}/confirm.json'))
    notes = ''
    if os.path.exists(f'{path}/notes.md'):
        notes = open(f'{path}/notes.md').read()
    needs = ''
    m = re.search(r'(?is)(needs|trigger|manifest)[^\n]*\n(.{0,600})', notes)
    if m:
        needs = ' '.join(m.group(0).split())[:500]
    meta = {
        'breaks_property': pid,
        'source': 'independent sub-agent given only the property text and a scratch worktree' if 'revert' not in d else 'reverse diff of a fix: commit in /repo',
        'needs_to_manifest': needs,
        'confirmation': confirm,
        'what_was_run': [f'tools/confirm_seeded.sh (build default + async,http; cargo test --workspace; demo on clean tree and with the change)'] if confirm else ['./check on the pre-fix tree fired; ./check on the fixed tree is silent'],
        'checks_run_against_it': res,
        'caught_by': [k for k, v in res.items() if v['exit'] == 1],
    }
    json.dump(meta, open(f'{path}/meta.json', 'w'), indent=1)
    rows.append((d, pid, meta['caught_by'], res))
# matrix (merge with existing metas for dirs not re-run)
lines = ['# Seeded changes vs. checks (quick tier, VERIF_SEED=1)', '', '| seeded change | breaks | caught by (exit 1) | first signatures |', '|---|---|---|---|']
for d in sorted(x for x in os.listdir(f'{V}/seeded') if os.path.exists(f'{V}/seeded/{x}/meta.json')):
    m = json.load(open(f'{V}/seeded/{d}/meta.json'))
    sigs = []
    for k, v in m['checks_run_against_it'].items():
        for s in v['signatures'][:2]:
            sigs.append(f'{k}: {s}')
    lines.append(f"| {d} | {m['breaks_property']} | {', '.join(m['caught_by']) or '**none**'} | {'; '.join(sigs)[:300]} |")
open(f'{V}/seeded/MATRIX.md', 'w').write('\n'.join(lines) + '\n')
print('written seeded/MATRIX.md')
