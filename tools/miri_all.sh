#!/bin/bash
# usage: tools/miri_all.sh [IDs...]  — runs the Miri-scale workload of each property in parallel (one process each), prints time + verdict
cd /verif/harness
export CARGO_NET_OFFLINE=true RUSTFLAGS="--cfg fastcgi_server_verif"
ids="${@:-$(cat /verif/implemented.txt)}"
mkdir -p /verif/out/logs
# build once
MIRIFLAGS="-Zmiri-disable-isolation" cargo +nightly miri run --offline -- C00 >/dev/null 2>&1
for id in $ids; do
  (
    t0=$(date +%s)
    flags="-Zmiri-disable-isolation"
    case $id in C10|C13|C14) flags="$flags -Zmiri-many-seeds=0..4";; esac
    MIRIFLAGS="$flags" timeout 3600 cargo +nightly miri run --offline -- $id --tier quick --scale miri --seed 1 --threads 1 --out /verif/out > /verif/out/logs/miri-$id.log 2>&1
    rc=$?
    t1=$(date +%s)
    echo "$id rc=$rc $((t1-t0))s $(grep -cE 'error: Undefined Behavior|Data race|memory leaked|error: unsupported' /verif/out/logs/miri-$id.log) reports; $(grep -E '^SUMMARY' /verif/out/logs/miri-$id.log | tail -1)"
  ) &
done
wait
