#!/bin/bash
# usage: tools/try_round.sh <outdir-root> <PID> [extra check ids...]  — runs every patchN.diff of a sub-agent against the property's check
root="$1"; pid="$2"; shift 2
for p in $root/$pid/patch*.diff; do
  [ -f "$p" ] || continue
  echo "#### $p"
  /verif/tools/try_patch.sh "$p" $pid "$@" 2>&1 | grep -E "^(==|  signature|OK|INCONCLUSIVE|patch does not)" | head -8
done
