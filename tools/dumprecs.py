#!/usr/bin/env python3
"""usage: tools/dumprecs.py <replay.json | hexstring>  — lists the FastCGI records in an input."""
import sys, json
a = sys.argv[1]
try:
    j = json.load(open(a)); h = j['detail'].get('input_hex') or j['detail'].get('wire_hex')
except Exception:
    h = a
h = h.split('..')[0]
b = bytes.fromhex(h)
names = {1:'Begin',2:'Abort',3:'End',4:'Params',5:'Stdin',6:'Stdout',7:'Stderr',8:'Data',9:'GetValues',10:'GetValuesResult',11:'Unknown'}
off = 0
while off + 8 <= len(b):
    v,t,i1,i2,l1,l2,p,_ = b[off:off+8]
    l = l1*256+l2
    body = b[off+8:off+8+l]
    print(f"@{off:6d} v{v} {names.get(t,'type%d'%t):10s} id={i1*256+i2:5d} len={l:5d} pad={p:3d} body={body[:24].hex()}{'..' if l>24 else ''}")
    off += 8 + l + p
if off != len(b): print(f"tail/overrun: off={off} len={len(b)}")
