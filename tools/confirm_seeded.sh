#!/bin/bash
# usage: tools/confirm_seeded.sh <PID> <i> [patchfile-name]
# Confirms a sub-agent's seeded change in its scratch worktree /tmp/wt/<PID>:
#   builds (default + async,http), existing suite passes, demo fails with / passes without the change.
# Writes /verif/seeded/<PID>-<i>/{patch.diff,demo.rs,notes.md,confirm.log} and prints a one-line verdict.
set -u
PID="$1"; I="$2"; PATCH="${3:-patch$I.diff}"
R="${ROUND:-}"; WT=/tmp/wt$R/$PID; SRC=/tmp/wtout$R/$PID; DST=/verif/seeded/$PID-${R:+r$R-}$I
mkdir -p "$DST"; LOG="$DST/confirm.log"; : > "$LOG"
cd "$WT" || exit 9
git checkout -q -- . ; git clean -fdq -e target
cp "$SRC/$PATCH" "$DST/patch.diff"
[ -f "$SRC/demo$I.rs" ] && cp "$SRC/demo$I.rs" "$DST/demo.rs"
[ -f "$SRC/notes$I.md" ] && cp "$SRC/notes$I.md" "$DST/notes.md"
export CARGO_NET_OFFLINE=true
run() { echo "\$ $*" >> "$LOG"; "$@" >> "$LOG" 2>&1; local rc=$?; echo "[rc=$rc]" >> "$LOG"; return $rc; }
mkdir -p tests; cp "$DST/demo.rs" tests/seeded_demo.rs
run cargo test --offline --features async,http --test seeded_demo; DEMO_CLEAN=$?
git apply "$DST/patch.diff" || { echo "$PID-$I: PATCH DOES NOT APPLY"; exit 1; }
run cargo build --offline; B1=$?
run cargo build --offline --features async,http; B2=$?
rm -f tests/seeded_demo.rs
run cargo test --workspace --offline; T1=$?
cp "$DST/demo.rs" tests/seeded_demo.rs
run cargo test --offline --features async,http --test seeded_demo; DEMO_MUT=$?
git checkout -q -- . ; git clean -fdq -e target
ok=no; [ $B1 -eq 0 ] && [ $B2 -eq 0 ] && [ $T1 -eq 0 ] && [ $DEMO_CLEAN -eq 0 ] && [ $DEMO_MUT -ne 0 ] && ok=yes
echo "$PID-$I: confirmed=$ok build=$B1/$B2 suite=$T1 demo_clean=$DEMO_CLEAN demo_mutated=$DEMO_MUT"
echo "{\"confirmed\": \"$ok\", \"build_default_rc\": $B1, \"build_async_http_rc\": $B2, \"existing_suite_rc\": $T1, \"demo_on_clean_rc\": $DEMO_CLEAN, \"demo_with_change_rc\": $DEMO_MUT}" > "$DST/confirm.json"
