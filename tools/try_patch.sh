#!/bin/bash
# usage: tools/try_patch.sh <patch.diff> <ID> [<ID>...]   (extra ./check args via CHECK_ARGS)
# Applies a seeded change to /repo's working tree, runs the given checks, and ALWAYS restores /repo.
set -u
patch="$1"; shift
cd /repo || exit 9
if ! git diff --quiet; then echo "/repo working tree not clean"; exit 9; fi
git apply "$patch" || { echo "patch does not apply"; exit 9; }
trap 'git -C /repo checkout -- . ; git -C /repo clean -fdq -e target' EXIT
cd /verif
# evidence of runs against a seeded change must not overwrite the committed evidence
export VERIF_EVIDENCE_DIR=/verif/out/evidence-seeded
rc_all=0
for id in "$@"; do
  out=$(timeout 600 ./check "$id" ${CHECK_ARGS:-} 2>&1); rc=$?
  echo "== $id rc=$rc"; echo "$out" | grep -E "^(VIOLATION|  signature|KNOWN|INCONCLUSIVE|OK|SUMMARY)" | head -8
  [ $rc -eq 1 ] || rc_all=1
done
exit $rc_all
