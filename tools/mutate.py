#!/usr/bin/env python3
"""Systematic mutation analysis of /repo against the registered checks (a sensitivity measurement of
the machinery, complementing the sub-agent-seeded changes under seeded/).

  tools/mutate.py gen                  -> out/mutants/list.jsonl   (one syntactic mutant per line)
  tools/mutate.py run [-j N] [filter]  -> out/mutants/results.jsonl (appends; resumes)
  tools/mutate.py report               -> out/mutants/REPORT.md + survivors on stdout

A mutant is only interesting if it (a) compiles with default features and with async,http + the
verif cfg, and (b) passes the repository's own test suite. Such a mutant is run against the quick
checks (binary invoked directly, seed 1) in an order that starts with the properties anchored in
the mutated file; the first check that reports a violation "kills" it.

Workers use scratch git worktrees of /repo and copies of /verif/harness under /tmp/mut/w<i>, all of
which are removed at the end of `run` (nothing registered in MANIFEST.json depends on them)."""
import json, os, re, subprocess, sys, shutil, time, hashlib
from concurrent.futures import ThreadPoolExecutor

V = '/verif'
OUT = f'{V}/out/mutants'
ROOT = '/tmp/mut'
ALL = [f'C{i:02d}' for i in range(1, 21)]
FILE_PROPS = {
    'src/parser/request.rs': ['C01', 'C03', 'C04', 'C06', 'C05', 'C11', 'C07'],
    'src/parser/stream.rs': ['C02', 'C18', 'C03', 'C04', 'C05', 'C09', 'C11', 'C07'],
    'src/parser/mod.rs': ['C01', 'C02', 'C03', 'C06'],
    'src/async_io/mod.rs': ['C07', 'C08', 'C09', 'C10', 'C11', 'C12', 'C14', 'C13', 'C17', 'C05'],
    'src/async_io/util.rs': ['C10', 'C13', 'C14', 'C07'],
    'src/protocol/varint.rs': ['C15', 'C16', 'C01'],
    'src/protocol/nv.rs': ['C16', 'C01', 'C04'],
    'src/protocol/mod.rs': ['C17', 'C10', 'C03', 'C01'],
    'src/protocol/body.rs': ['C17', 'C04', 'C07'],
    'src/protocol/fields.rs': ['C17', 'C03', 'C18', 'C01'],
    'src/protocol/vars.rs': ['C17', 'C04'],
    'src/cgi/mod.rs': ['C19', 'C01'],
    'src/cgi/intern.rs': ['C19', 'C01'],
    'src/cgi/response.rs': ['C20'],
    'src/lib.rs': ['C06', 'C13', 'C07', 'C17', 'C01'],
    'src/ext.rs': ['C01', 'C02', 'C16'],
}
SKIP_FILES = {'src/parser/test_support.rs', 'src/verif.rs', 'src/macros.rs'}

REL = [('<=', '<'), ('>=', '>'), ('==', '!='), ('!=', '==')]


def code_lines(path):
    """Yields (lineno, text) of non-test, non-comment code lines."""
    lines = open(path).read().split('\n')
    end = len(lines)
    for i, l in enumerate(lines):
        if l.strip() == '#[cfg(test)]' and i + 1 < len(lines) and re.match(r'\s*(pub(\(crate\))? )?mod \w+ \{', lines[i + 1]):
            end = i
            break
    for i in range(end):
        l = lines[i]
        s = l.strip()
        if not s or s.startswith('//') or s.startswith('#[') or s.startswith('#!['):
            continue
        if i > 0 and lines[i - 1].strip() == '#[cfg(fastcgi_server_verif)]':
            continue  # the verification hook itself
        if s.startswith('use ') or s.startswith('pub use '):
            continue
        yield i, l


def strip_strings(l):
    # crude: blank out string literal contents and trailing comments so that operators in them are not mutated
    out = []
    in_s = False
    j = 0
    while j < len(l):
        ch = l[j]
        if in_s:
            if ch == '\\':
                out.append('  '); j += 2; continue
            if ch == '"':
                in_s = False
            out.append(' ' if ch != '"' else '"')
        else:
            if ch == '"':
                in_s = True
                out.append('"')
            elif l.startswith('//', j):
                out.append(' ' * (len(l) - j))
                break
            elif l.startswith('/*', j) and '*/' in l[j:]:
                e = l.index('*/', j) + 2
                out.append(' ' * (e - j))
                j = e
                continue
            else:
                out.append(ch)
        j += 1
    return ''.join(out)


def mutants_of_line(l):
    """Returns list of (op, new_line)."""
    res = []
    s = strip_strings(l)
    code = s.strip()

    def sub_at(a, b, new, op):
        res.append((op, l[:a] + new + l[b:]))

    # relational / equality
    for m in re.finditer(r'(<=|>=|==|!=)', s):
        tok = m.group(1)
        # skip `=>` confusions: '>=' never overlaps '=>' textually except in `>=>`; fine
        new = dict(REL)[tok]
        sub_at(m.start(), m.end(), new, f'rel {tok}->{new}')
    for m in re.finditer(r' (<|>) ', s):
        tok = m.group(1)
        new = tok + '='
        sub_at(m.start() + 1, m.end() - 1, new, f'rel {tok}->{new}')
    # logical
    for m in re.finditer(r'(&&|\|\|)', s):
        tok = m.group(1)
        new = '||' if tok == '&&' else '&&'
        # `||` of a closure without args
        if tok == '||' and re.match(r'\s*(\{|[a-zA-Z_(])', s[m.end():]) and re.search(r'[(,=]\s*(move\s*)?$', s[:m.start()]):
            continue
        sub_at(m.start(), m.end(), new, f'logic {tok}->{new}')
    # arithmetic
    for m in re.finditer(r' (\+|-|\*|/|%|\+=|-=|\||&|<<|>>) ', s):
        tok = m.group(1)
        swap = {'+': '-', '-': '+', '*': '/', '/': '*', '%': '/', '+=': '-=', '-=': '+=', '|': '&', '&': '|', '<<': '>>', '>>': '<<'}[tok]
        sub_at(m.start() + 1, m.end() - 1, swap, f'arith {tok}->{swap}')
    # integer literals (decimal and hex), not in attributes / array types
    for m in re.finditer(r'(?<![\w.])(0x[0-9a-fA-F_]+|\d[\d_]*)(?![\w.]*["\'])(u8|u16|u32|u64|usize|i32)?\b', s):
        txt = m.group(1)
        if re.search(r'\[[^\]]*;\s*$', s[:m.start()]):
            continue  # array length
        try:
            v = int(txt.replace('_', ''), 0)
        except ValueError:
            continue
        suffix = m.group(2) or ''
        for nv in {v + 1, max(v - 1, 0)} - {v}:
            new = (hex(nv) if txt.startswith('0x') else str(nv)) + suffix
            sub_at(m.start(), m.end(), new, f'const {txt}->{new}')
    # booleans
    for m in re.finditer(r'\b(true|false)\b', s):
        new = 'false' if m.group(1) == 'true' else 'true'
        sub_at(m.start(), m.end(), new, f'bool {m.group(1)}->{new}')
    # negate conditions
    m = re.match(r'^(\s*(?:\} else )?if )((?!let ).+)( \{\s*)$', s)
    if m and 'if let' not in s:
        res.append(('negate-if', l[:m.start(2)] + '!(' + l[m.start(2):m.end(2)] + ')' + l[m.end(2):]))
    m = re.match(r'^(\s*while )((?!let ).+)( \{\s*)$', s)
    if m:
        res.append(('negate-while', l[:m.start(2)] + '!(' + l[m.start(2):m.end(2)] + ')' + l[m.end(2):]))
    # condition forced to a constant
    m = re.match(r'^(\s*(?:\} else )?if )((?!let ).+)( \{\s*)$', s)
    if m and 'if let' not in s:
        for c in ('true', 'false'):
            res.append((f'if-{c}', l[:m.start(2)] + c + l[m.end(2):]))
    # match guards
    m = re.match(r'^(.*\S) if ((?!let ).+) =>(.*)$', s)
    if m and not s.lstrip().startswith('if '):
        res.append(('negate-guard', l[:m.start(2)] + '!(' + l[m.start(2):m.end(2)] + ')' + l[m.end(2):]))
    # slice bounds off by one
    for m in re.finditer(r'\[([\w.()]+)\.\.\]', s):
        sub_at(m.start(1), m.end(1), m.group(1) + ' + 1', 'range-start+1')
    for m in re.finditer(r'\[\.\.([\w.()]+)\]', s):
        sub_at(m.start(1), m.end(1), m.group(1) + ' - 1', 'range-end-1')
    for m in re.finditer(r'\[([\w.()]+)\.\.([\w.()]+)\]', s):
        sub_at(m.start(2), m.end(2), m.group(2) + ' - 1', 'range-end-1')
        sub_at(m.start(1), m.end(1), m.group(1) + ' + 1', 'range-start+1')
    # early returns / loop exits removed, Poll results swapped
    if re.match(r'^\s*(return|break|continue)\b.*;\s*$', s):
        indent = l[:len(l) - len(l.lstrip())]
        res.append(('delete-exit', indent + '/* mutant: exit removed */'))
    for a, b in [('Poll::Pending', 'Poll::Ready(Ok(0))'), ('cx.waker().wake_by_ref()', '()'), ('.take()', '.clone()'), ('.clone()', '.take()'),
                 ('u16::MAX', 'u16::MAX - 1'), ('u8::MAX', 'u8::MAX - 1'), ('usize::from(', '1 + usize::from('), ('.len()', '.len() + 1'), ('.len()', '.len() - 1'),
                 ('.first()', '.last()'), ('.last()', '.first()'), ('Ordering::Less', 'Ordering::Greater'), ('Ordering::Greater', 'Ordering::Less'),
                 ('.rev()', ''), ('.skip(1)', ''), ('copy_within', 'copy_within_'), ('.truncate(', '.truncate(1 + '), ('.clear()', '.len()')]:
        for m in re.finditer(re.escape(a), s):
            if a == 'copy_within':
                continue
            sub_at(m.start(), m.end(), b, f'swap {a}->{b}')
    # min/max, saturating/wrapping, first/last etc.
    for a, b in [('.min(', '.max('), ('.max(', '.min('), ('.saturating_sub(', '.wrapping_sub('), ('.is_some()', '.is_none()'), ('.is_none()', '.is_some()'),
                 ('.is_empty()', '.len() == 1'), ('.is_ok()', '.is_err()'), ('.is_err()', '.is_ok()'), ('.is_ready()', '.is_pending()'), ('.is_pending()', '.is_ready()'),
                 ('to_ascii_uppercase', 'to_ascii_lowercase'), ('make_ascii_uppercase', 'make_ascii_lowercase'), ('eq_ignore_ascii_case', 'eq'),
                 ('from_be_bytes', 'from_le_bytes'), ('to_be_bytes', 'to_le_bytes'), ('fetch_add', 'fetch_sub'), ('fetch_sub', 'fetch_add'),
                 ('split_at(', 'split_at(1 + '), ('..=', '..')]:
        for m in re.finditer(re.escape(a), s):
            sub_at(m.start(), m.end(), b, f'swap {a}->{b}')
    # statement deletion: a complete expression statement on one line (call or assignment), not a let / return
    if re.match(r'^\s*[a-zA-Z_][\w.:<>\[\]&*()!, ]*(\(.*\)|\s[-+|&]?=\s.*);\s*$', s) and not re.match(r'^\s*(let|return|break|continue|use|pub|const|static|type|fn|debug_assert|assert|tracing::|crate::macros::|trace!|unreachable|panic)', code):
        indent = l[:len(l) - len(l.lstrip())]
        res.append(('delete-stmt', indent + '/* mutant: statement removed */'))
    # `?` error propagation dropped is rarely compilable; `return` variants skipped
    # dedupe
    seen = set()
    out = []
    for op, nl in res:
        if nl != l and nl not in seen:
            seen.add(nl)
            out.append((op, nl))
    return out


def gen():
    os.makedirs(OUT, exist_ok=True)
    files = subprocess.run(['git', '-C', '/repo', 'ls-files', 'src'], capture_output=True, text=True).stdout.split()
    n = 0
    with open(f'{OUT}/list.jsonl', 'w') as f:
        for rel in sorted(files):
            if not rel.endswith('.rs') or rel in SKIP_FILES:
                continue
            for i, l in code_lines(f'/repo/{rel}'):
                for op, nl in mutants_of_line(l):
                    mid = hashlib.sha1(f'{rel}:{i}:{nl}'.encode()).hexdigest()[:10]
                    f.write(json.dumps({'id': mid, 'file': rel, 'line': i + 1, 'op': op, 'old': l, 'new': nl}) + '\n')
                    n += 1
    print(f'{n} mutants -> {OUT}/list.jsonl')


def sh(cmd, cwd, env=None, timeout=600):
    """Runs cmd in its own process group; on timeout the whole group is killed (a mutant's test
    binary that spins forever must not outlive its cargo parent)."""
    import signal
    p = subprocess.Popen(cmd, cwd=cwd, env=env, stdout=subprocess.PIPE, stderr=subprocess.STDOUT, text=True, errors='replace', start_new_session=True)
    try:
        out, _ = p.communicate(timeout=timeout)
        return p.returncode, out
    except subprocess.TimeoutExpired:
        try:
            os.killpg(p.pid, signal.SIGKILL)
        except ProcessLookupError:
            pass
        out, _ = p.communicate()
        return None, out or ''


def setup_worker(i):
    w = f'{ROOT}/w{i}'
    if os.path.exists(w):
        subprocess.run(['git', '-C', '/repo', 'worktree', 'remove', '--force', f'{w}/repo'], capture_output=True)
        shutil.rmtree(w, ignore_errors=True)
    os.makedirs(w)
    subprocess.run(['git', '-C', '/repo', 'worktree', 'add', '--detach', '-q', f'{w}/repo', 'HEAD'], check=True)
    subprocess.run(['rsync', '-a', '--exclude', 'target', f'{V}/harness/', f'{w}/harness/'], check=True)
    ct = f'{w}/harness/Cargo.toml'
    s = open(ct).read().replace('path = "/repo"', f'path = "{w}/repo"')
    open(ct, 'w').write(s)
    env = dict(os.environ, CARGO_NET_OFFLINE='true')
    rc, out = sh(['cargo', 'test', '--workspace', '--offline', '-q'], f'{w}/repo', env, 1200)
    assert rc == 0, out[-2000:]
    henv = dict(env, RUSTFLAGS='--cfg fastcgi_server_verif', CARGO_TARGET_DIR=f'{w}/htarget')
    rc, out = sh(['cargo', 'build', '--offline', '--profile', 'monitor'], f'{w}/harness', henv, 1800)
    assert rc == 0, out[-2000:]
    return w


def run_one(w, m):
    repo = f'{w}/repo'
    path = f'{repo}/{m["file"]}'
    orig = open(path).read()
    lines = orig.split('\n')
    assert lines[m['line'] - 1] == m['old'], 'source drifted'
    lines[m['line'] - 1] = m['new']
    res = {'id': m['id'], 'file': m['file'], 'line': m['line'], 'op': m['op'], 'old': m['old'].strip(), 'new': m['new'].strip()}
    t0 = time.time()
    try:
        open(path, 'w').write('\n'.join(lines))
        env = dict(os.environ, CARGO_NET_OFFLINE='true')
        rc, out = sh(['cargo', 'test', '--workspace', '--offline', '-q'], repo, env, 300)
        if rc is None:
            res['status'] = 'tests_timeout'
            return res
        if rc != 0:
            res['status'] = 'nocompile' if re.search(r'^error(\[E\d+\])?:', out, re.M) and 'test result: FAILED' not in out else 'killed_by_tests'
            return res
        henv = dict(env, RUSTFLAGS='--cfg fastcgi_server_verif', CARGO_TARGET_DIR=f'{w}/htarget')
        rc, out = sh(['cargo', 'build', '--offline', '--profile', 'monitor'], f'{w}/harness', henv, 900)
        if rc != 0:
            res['status'] = 'nocompile_features'
            return res
        order = FILE_PROPS.get(m['file'], [])
        order = order + [p for p in ALL if p not in order]
        res['checks'] = {}
        outdir = f'{w}/out'
        for pid in order:
            shutil.rmtree(outdir, ignore_errors=True)
            os.makedirs(outdir)
            rc, out = sh([f'{w}/htarget/monitor/fcgi-verif', pid, '--tier', 'quick', '--seed', '1', '--out', outdir, '--evidence', f'{outdir}/{pid}.json'], w, env, 400)
            sigs = sorted(set(re.findall(r'^RAWVIOLATION\t\S+\t([^\t]*)\t', out or '', re.M)))
            if sigs:
                res['status'] = 'killed'
                res['killed_by'] = pid
                res['signatures'] = sigs[:4]
                return res
            res['checks'][pid] = 'timeout' if rc is None else rc
        res['status'] = 'survived'
        return res
    finally:
        open(path, 'w').write(orig)
        res['wall_s'] = round(time.time() - t0, 1)


def run(args):
    j = 8
    filt = None
    i = 0
    while i < len(args):
        if args[i] == '-j':
            j = int(args[i + 1]); i += 2
        else:
            filt = args[i]; i += 1
    ms = [json.loads(l) for l in open(f'{OUT}/list.jsonl')]
    done = set()
    rp = f'{OUT}/results.jsonl'
    if os.path.exists(rp):
        done = {json.loads(l)['id'] for l in open(rp)}
    todo = [m for m in ms if m['id'] not in done and (filt is None or re.search(filt, m['file']))]
    print(f'{len(todo)} mutants to run with {j} workers', flush=True)
    with ThreadPoolExecutor(j) as ex:
        workers = list(ex.map(setup_worker, range(j)))
    print('workers ready', flush=True)
    import queue, threading
    q = queue.Queue()
    for m in todo:
        q.put(m)
    lock = threading.Lock()
    counts = {}

    def loop(w):
        while True:
            try:
                m = q.get_nowait()
            except queue.Empty:
                return
            try:
                r = run_one(w, m)
            except Exception as e:  # noqa
                r = {'id': m['id'], 'file': m['file'], 'line': m['line'], 'op': m['op'], 'status': 'tool_error', 'error': str(e)[:300]}
            with lock:
                with open(rp, 'a') as f:
                    f.write(json.dumps(r) + '\n')
                counts[r['status']] = counts.get(r['status'], 0) + 1
                n = sum(counts.values())
                if n % 20 == 0 or r['status'] == 'survived':
                    print(n, counts, ('SURVIVED ' + r['file'] + ':' + str(r['line']) + ' ' + r['op']) if r['status'] == 'survived' else '', flush=True)

    ts = [threading.Thread(target=loop, args=(w,)) for w in workers]
    for t in ts:
        t.start()
    for t in ts:
        t.join()
    for w in workers:
        subprocess.run(['git', '-C', '/repo', 'worktree', 'remove', '--force', f'{w}/repo'], capture_output=True)
    shutil.rmtree(ROOT, ignore_errors=True)
    subprocess.run(['git', '-C', '/repo', 'worktree', 'prune'])
    print('done', counts)


def report():
    rs = {}
    for l in open(f'{OUT}/results.jsonl'):
        r = json.loads(l)
        rs[r['id']] = r
    by = {}
    for r in rs.values():
        by.setdefault(r['status'], []).append(r)
    lines = ['# Mutation analysis of /repo against the quick checks', '']
    lines.append('| status | mutants |')
    lines.append('|---|---|')
    for k, v in sorted(by.items()):
        lines.append(f'| {k} | {len(v)} |')
    killed = by.get('killed', [])
    surv = by.get('survived', [])
    denom = len(killed) + len(surv)
    if denom:
        lines.append('')
        lines.append(f'Of the {denom} mutants that compile and pass the existing test suite, {len(killed)} ({100 * len(killed) / denom:.1f} %) are caught by a quick check.')
    lines.append('')
    lines.append('## Killed, by check')
    kb = {}
    for r in killed:
        kb[r['killed_by']] = kb.get(r['killed_by'], 0) + 1
    lines.append(', '.join(f'{k}: {v}' for k, v in sorted(kb.items())))
    lines.append('')
    lines.append('## Survivors')
    for r in sorted(surv, key=lambda r: (r['file'], r['line'])):
        lines.append(f"- `{r['file']}:{r['line']}` {r['op']}: `{r['old']}` -> `{r['new']}`")
    open(f'{OUT}/REPORT.md', 'w').write('\n'.join(lines) + '\n')
    print('\n'.join(lines))


if __name__ == '__main__':
    cmd = sys.argv[1] if len(sys.argv) > 1 else ''
    if cmd == 'gen':
        gen()
    elif cmd == 'run':
        run(sys.argv[2:])
    elif cmd == 'report':
        report()
    else:
        print(__doc__)
